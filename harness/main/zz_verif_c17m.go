//go:build verif

package main

// C17 / C19 — files that match a tag whose method is not HTTP (left to some
// other mechanism, e.g. "disk" or "none") are not scanned, queued or sent.

import (
	"os"
	"path/filepath"
	"regexp"
	"time"

	"github.com/arm-doe/sts"
	"github.com/arm-doe/sts/internal/verifrt"
)

func init() {
	verifrt.Register("H_C17_MethodIgnore", H_C17_MethodIgnore)
}

// The real clientApp.init runs on a configuration with a default HTTP tag and
// one pattern tag whose method is chosen (http, disk, none). Two old-enough
// files are in the outgoing directory, one matching the pattern tag. The store
// built by init must return the matching file in a scan exactly when its tag's
// method is HTTP; the other file always.
func H_C17_MethodIgnore(v *verifrt.T) {
	root := v.TempRoot()
	for _, d := range []string{"out", "log", "cache"} {
		os.MkdirAll(filepath.Join(root, d), 0o755)
	}
	methods := []string{sts.MethodHTTP, "disk", "none"}
	method := methods[v.Choose("method-of-the-pattern-tag", len(methods))]
	conf := &sts.SourceConf{
		Name: "src", OutDir: filepath.Join(root, "out"), LogDir: filepath.Join(root, "log"), Threads: 1,
		MinAge: time.Second,
		Target: &sts.TargetConf{Name: "t", Host: "h:1992"},
		Tags: []*sts.TagConf{
			{Method: sts.MethodHTTP, Order: sts.OrderFIFO},
			{Pattern: regexp.MustCompile(`^d`), Method: method, Order: sts.OrderFIFO},
		},
	}
	c := &clientApp{conf: conf, dirCache: filepath.Join(root, "cache")}
	if err := c.init(); err != nil {
		v.Assert(false, "clientApp.init failed on a plain configuration")
		return
	}
	v.Version("v1", 4)
	for _, n := range []string{"d1.x", "h1.x"} {
		p := filepath.Join(root, "out", n)
		v.PutVersionFile(p, "v1")
		v.SetAge(p, time.Hour)
	}
	files, _, err := c.broker.Conf.Store.Scan(func(sts.File) bool { return true })
	v.Assert(err == nil, "the scan succeeds")
	got := map[string]int{}
	for _, f := range files {
		got[f.GetName()]++
	}
	wantD := 0
	if method == sts.MethodHTTP {
		wantD = 1
		v.Reach("http")
	} else {
		v.Reach("other-method")
	}
	v.Assert(got["h1.x"] == 1, "C17 an eligible file of an HTTP tag is found by the scan")
	v.Assert(got["d1.x"] == wantD, "C17/C19 a file whose tag is not sent over HTTP is never scanned, queued or sent; a file whose tag is, is")
	v.Assert(len(got) == 1+wantD, "C17 the scan returns nothing else")
}
