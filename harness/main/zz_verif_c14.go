//go:build verif

package main

// C14.O4 — the mapping of a request's source name onto the receiver's
// directories, as wired by serverApp.init (the GateKeeperFactory closure).

import (
	"os"
	"path/filepath"
	"strings"
	"time"

	"github.com/arm-doe/sts"
	"github.com/arm-doe/sts/internal/verifrt"
)

func init() {
	verifrt.Register("H_C14_Mapping", H_C14_Mapping)
}

type vPart struct {
	name, hash string
	size       int64
}

func (b *vPart) GetName() string          { return b.name }
func (b *vPart) GetRenamed() string       { return "" }
func (b *vPart) GetPrev() string          { return "" }
func (b *vPart) GetFileTime() time.Time   { return time.Time{} }
func (b *vPart) GetFileHash() string      { return b.hash }
func (b *vPart) GetFileSize() int64       { return b.size }
func (b *vPart) GetSendSize() int64       { return b.size }
func (b *vPart) GetSlice() (int64, int64) { return 0, b.size }

// The real serverApp.init builds the server; its GateKeeperFactory is asked
// for the gate keeper of a source whose name is an arbitrary symbolic-byte
// string the validator accepts (no allow-list configured: every name is
// accepted, as in the shipped example configuration). An ordinary file is then
// received completely, validated, logged and put away through that gate
// keeper. Post-state oracle (natively replayable): every file that exists
// afterwards lies under the configured stage, final or incoming-log root, and
// files outside them are intact.
func H_C14_Mapping(v *verifrt.T) {
	l := v.Param("L", 4)
	v.FixClock() // time plays no part here; the real receive log prints it
	root := v.TempRoot()
	recv := filepath.Join(root, "recv")
	dirs := &sts.ServerDirs{
		Stage:  filepath.Join(recv, "stage"),
		Final:  filepath.Join(recv, "final"),
		LogIn:  filepath.Join(recv, "logs", "in"),
		LogMsg: filepath.Join(recv, "logs", "msg"),
		Serve:  filepath.Join(recv, "serve"),
	}
	for _, d := range []string{dirs.Stage, dirs.Final, dirs.LogIn, dirs.LogMsg, dirs.Serve} {
		os.MkdirAll(d, 0o755)
	}
	size := int64(4)
	h := v.Version("v1", size)
	v.Version("v0", size)
	v.PutVersionFile(filepath.Join(root, "secret"), "v1")
	// another source ("dir") has delivered a file f.txt and is receiving a newer one
	v.PutVersionFile(filepath.Join(dirs.Final, "dir", "f.txt"), "v0")
	v.PutVersionFile(filepath.Join(dirs.Stage, "dir", "f.txt.part"), "v0")
	a := &serverApp{conf: &sts.ServerConf{Dirs: dirs, Server: &sts.HTTPServer{Port: 1992}}}
	if err := a.init(); err != nil {
		v.Assert(false, "serverApp.init failed on a plain configuration")
		return
	}
	source := v.Bytes("source", 1+v.Choose("source-len", l))
	v.Assume(source != "dir")
	if !a.server.IsValid(source, "") {
		v.Reach("refused")
		return
	}
	v.Reach("accepted")
	gk := a.server.GateKeeperFactory(source)
	part := &vPart{name: "dir/f.txt", hash: h, size: size}
	gk.Prepare([]sts.Binned{part})
	err := gk.Receive(&sts.Partial{
		Name: part.name, Size: size, Hash: h, Source: source,
		Parts: []*sts.ByteRange{{Beg: 0, End: size}},
	}, v.Reader("v1", 0, size))
	v.Quiesce()
	delivered := false
	for _, f := range v.Files(root) {
		ok := strings.HasPrefix(f, "recv/stage/") || strings.HasPrefix(f, "recv/final/") || strings.HasPrefix(f, "recv/logs/in/") || f == "secret"
		v.Assert(ok, "C14.O4 whatever the source name, a receiver creates files only under its configured stage, final and incoming-log roots")
		if strings.HasPrefix(f, "recv/final/") && strings.HasSuffix(f, "/dir/f.txt") && f != "recv/final/dir/f.txt" {
			delivered = true
		}
	}
	v.Assert(v.FileIs(filepath.Join(root, "secret"), "v1"), "C14.O4 a file outside the configured directories is not modified or deleted")
	v.Assert(v.FileIs(filepath.Join(dirs.Final, "dir", "f.txt"), "v0"), "C14.O4 a file delivered by another source is not replaced")
	v.Assert(v.FileIs(filepath.Join(dirs.Stage, "dir", "f.txt.part"), "v0"), "C14.O4 a file staged by another source is not touched")
	if err == nil {
		v.Assert(delivered, "C01 the completely received, validated file is in the final directory of its source")
		v.Reach("delivered")
	}
}
