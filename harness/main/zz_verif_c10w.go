//go:build verif

package main

// C10 / C19 — the order configured for a tag (or left out) is the order the
// queue built by the real clientApp.init applies.

import (
	"os"
	"path/filepath"
	"time"

	"github.com/arm-doe/sts"
	"github.com/arm-doe/sts/internal/verifrt"
)

func init() {
	verifrt.Register("H_C10_OrderWiring", H_C10_OrderWiring)
}

// The real clientApp.init runs on a configuration whose only tag has the order
// "fifo", "lifo", "none" or no order at all (which the sender reports at
// start-up as FIFO). Two files of one group are queued, the alphabetically
// later one being the older one (symbolic age difference). The queue must hand
// them out oldest first for fifo and for the omitted order, newest first for
// lifo, in order of arrival for none; ordered tags announce the file emitted
// before as predecessor, "none" announces nothing.
func H_C10_OrderWiring(v *verifrt.T) {
	root := v.TempRoot()
	for _, d := range []string{"out", "log", "cache"} {
		os.MkdirAll(filepath.Join(root, d), 0o755)
	}
	orders := []string{"", sts.OrderFIFO, sts.OrderLIFO, sts.OrderNone}
	order := orders[v.Choose("configured-order", len(orders))]
	conf := &sts.SourceConf{
		Name: "src", OutDir: filepath.Join(root, "out"), LogDir: filepath.Join(root, "log"), Threads: 1,
		Target: &sts.TargetConf{Name: "t", Host: "h:1992"},
		Tags:   []*sts.TagConf{{Method: sts.MethodHTTP, Order: order}},
	}
	c := &clientApp{conf: conf, dirCache: filepath.Join(root, "cache")}
	if err := c.init(); err != nil {
		v.Assert(false, "clientApp.init failed on a plain configuration")
		return
	}
	q := c.broker.Conf.Queue
	gap := v.Duration("age-difference", time.Second, time.Hour)
	t0 := v.Now().Add(-2 * time.Hour)
	older := &vHashed{name: "g.b", time: t0}
	newer := &vHashed{name: "g.a", time: t0.Add(gap)}
	if v.Choose("newer-file-arrives-first", 2) == 1 {
		q.Push([]sts.Hashed{newer})
		q.Push([]sts.Hashed{older})
		v.Reach("newer-first")
	} else {
		q.Push([]sts.Hashed{older})
		q.Push([]sts.Hashed{newer})
	}
	first := q.Pop()
	second := q.Pop()
	if first == nil || second == nil {
		v.Assert(false, "the queue hands out the pushed files")
		return
	}
	switch order {
	case "", sts.OrderFIFO:
		v.Reach("fifo")
		v.Assert(first.GetName() == "g.b" && second.GetName() == "g.a", "C10/C19 a tag with order fifo, or without a configured order (reported as FIFO at start-up), emits the oldest pending file of a group first")
		v.Assert(first.GetPrev() == "" && second.GetPrev() == "g.b", "C10 ordered tags announce the file emitted before as predecessor")
	case sts.OrderLIFO:
		v.Reach("lifo")
		v.Assert(first.GetName() == "g.a" && second.GetName() == "g.b", "C10/C19 a tag with order lifo emits the newest pending file of a group first")
	case sts.OrderNone:
		v.Reach("none")
		v.Assert(first.GetPrev() == "" && second.GetPrev() == "", "C10 unordered tags announce no predecessor")
	}
}
