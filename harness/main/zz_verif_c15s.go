//go:build verif

package main

// C15 — start-up: the staging areas found on disk are recovered under the
// name of their source, so that requests of that source meet the recovering
// gate keeper ("unavailable") and not a second, fresh one.

import (
	"os"
	"path/filepath"

	"github.com/arm-doe/sts"
	"github.com/arm-doe/sts/internal/verifrt"
)

func init() {
	verifrt.Register("H_C15_Startup", H_C15_Startup)
}

// A receiver restarts with the staging directory of one source on disk. The
// source name has 1-3 segments (first byte symbolic); its directory name is the
// source name with path separators neutralised. After the real
// serverApp.init: the server knows exactly one gate keeper, registered under
// the SOURCE name — the name requests carry — so that handleValidate finds the
// recovering stage for them; the factory is not needed for this source.
func H_C15_Startup(v *verifrt.T) {
	root := v.TempRoot()
	recv := filepath.Join(root, "recv")
	dirs := &sts.ServerDirs{
		Stage: filepath.Join(recv, "stage"), Final: filepath.Join(recv, "final"),
		LogIn: filepath.Join(recv, "logs", "in"), LogMsg: filepath.Join(recv, "logs", "msg"), Serve: filepath.Join(recv, "serve"),
	}
	for _, d := range []string{dirs.Stage, dirs.Final, dirs.LogIn, dirs.LogMsg, dirs.Serve} {
		os.MkdirAll(d, 0o755)
	}
	x := v.Bytes("first-byte", 1)
	v.Assume(x[0] >= 'a' && x[0] <= 'z')
	segs := 1 + v.Choose("segments", 3)
	source, dir := x, x
	for k := 1; k < segs; k++ {
		source += "/s"
		dir += "--s"
	}
	os.MkdirAll(filepath.Join(dirs.Stage, dir), 0o755)
	a := &serverApp{conf: &sts.ServerConf{Dirs: dirs, Server: &sts.HTTPServer{Port: 1992}}}
	if err := a.init(); err != nil {
		v.Assert(false, "serverApp.init failed on a plain configuration")
		return
	}
	n := 0
	found := false
	for name := range a.server.GateKeepers {
		n++
		if name == source {
			found = true
		}
	}
	v.Assert(n == 1, "C15 one gate keeper per staging directory found at start-up")
	v.Assert(found, "C15 the staging area found at start-up is recovered under the name of its source, so that its requests are answered 'unavailable' while recovery runs")
	if segs > 1 {
		v.Reach("nested-source")
	} else {
		v.Reach("plain-source")
	}
	v.Quiesce()
}
