//go:build verif

package main

// C19.O4 — the wiring of tags into the running sender (clientApp.init): the
// tagger / grouper closures handed to the queue and to the broker.

import (
	"os"
	"path/filepath"
	"regexp"
	"time"

	"github.com/arm-doe/sts"
	"github.com/arm-doe/sts/internal/verifrt"
)

func init() {
	verifrt.Register("H_C19_Tags", H_C19_Tags)
}

type vHashed struct {
	name string
	time time.Time
}

func (f *vHashed) GetPath() string    { return "/out/" + f.name }
func (f *vHashed) GetName() string    { return f.name }
func (f *vHashed) GetSize() int64     { return 10 }
func (f *vHashed) GetTime() time.Time { return f.time }
func (f *vHashed) GetMeta() []byte    { return nil }
func (f *vHashed) GetHash() string    { return "h" }

// The real clientApp.init is run on a configuration with a default tag and two
// pattern tags; the file name is an arbitrary ASCII symbolic-byte string.
// Reference (the anchored mechanism): the name's group is what group-by
// captures, unless that is empty or the whole name, in which case the name
// itself is looked up; the tag is the first tag whose pattern matches that
// key, the default tag otherwise. Asserted: (a) the tag the broker uses
// (Conf.Tagger: delete / delete-delay) is that tag; (b) the real queue built
// by init applies that tag's priority: the file overtakes an earlier
// default-tag file exactly when its tag has the higher priority.
func H_C19_Tags(v *verifrt.T) {
	l := v.Param("L", 4)
	root := v.TempRoot()
	for _, d := range []string{"out", "log", "cache"} {
		os.MkdirAll(filepath.Join(root, d), 0o755)
	}
	// (the second and third pattern overlap: "i/x" matches both — the FIRST wins)
	pats := []*regexp.Regexp{nil, regexp.MustCompile(`^i/`), regexp.MustCompile(`^i`), regexp.MustCompile(`^d`)}
	conf := &sts.SourceConf{
		Name: "src", OutDir: filepath.Join(root, "out"), LogDir: filepath.Join(root, "log"), Threads: 1,
		Target: &sts.TargetConf{Name: "t", Host: "h:1992"},
		Tags: []*sts.TagConf{
			{Method: sts.MethodHTTP, Order: sts.OrderFIFO, Delete: true},
			{Pattern: pats[1], Method: sts.MethodHTTP, Order: sts.OrderFIFO, Priority: 9},
			{Pattern: pats[2], Method: sts.MethodHTTP, Order: sts.OrderFIFO, Priority: 0, Delete: true},
			{Pattern: pats[3], Method: sts.MethodHTTP, Order: sts.OrderFIFO, Priority: 5, Delete: true},
		},
	}
	c := &clientApp{conf: conf, dirCache: filepath.Join(root, "cache")}
	if err := c.init(); err != nil {
		v.Assert(false, "clientApp.init failed on a plain configuration")
		return
	}
	name := v.Bytes("name", 1+v.Choose("len", l))
	for k := 0; k < len(name); k++ {
		v.Assume(name[k] < 0x80) // ASCII (multi-byte runes are outside the claim)
	}
	v.Assume(name != "o/f.nc")
	// reference
	key := name
	if m := conf.GroupBy.FindStringSubmatch(name); len(m) > 1 && m[1] != "" && m[1] != name {
		key = m[1]
	}
	want, prio := "", 0
	for k := 1; k < len(pats); k++ {
		if pats[k].MatchString(key) {
			want, prio = pats[k].String(), conf.Tags[k].Priority
			break
		}
	}
	// known finding: the look-up also accepts a key that IS the text of a tag's
	// pattern (the fall-back group of a file is its tag's name, and group names
	// and tag names share one name space)
	isPatternText := false
	for k := 1; k < len(pats); k++ {
		isPatternText = verifrt.Or(isPatternText, key == pats[k].String())
	}
	got := c.broker.Conf.Tagger(name)
	v.AssertKF(got == want, "C19.O4 the sender applies to a file the first tag whose pattern matches its group key, the default tag otherwise", "KF-C19-name-is-pattern-text", isPatternText)
	if want == pats[1].String() {
		v.Reach("first-of-two-matching-tags")
	}
	if want == "" {
		v.Reach("default")
	} else if key == name {
		v.Reach("tag-by-name")
	} else {
		v.Reach("tag-by-group")
	}
	// the queue built by init: an older default-tag file, then the file
	q := c.broker.Conf.Queue
	t0 := v.Now().Add(-time.Hour)
	q.Push([]sts.Hashed{&vHashed{name: "o/f.nc", time: t0}})
	q.Push([]sts.Hashed{&vHashed{name: name, time: t0.Add(time.Minute)}})
	first := q.Pop()
	if first == nil {
		v.Assert(false, "the queue hands out a pushed file")
		return
	}
	v.AssertKF((first.GetName() == name) == (prio > 0), "C19.O4 the queue applies the tag's priority to exactly the files of that tag", "KF-C19-name-is-pattern-text", isPatternText)
}
