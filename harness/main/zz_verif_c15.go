//go:build verif

package main

// C15 — the standard request validator: allowed sources and keys.

import (
	"github.com/arm-doe/sts"
	"github.com/arm-doe/sts/internal/verifrt"
)

func init() {
	verifrt.Register("H_C15_Validator", H_C15_Validator)
}

// O1/O4: for configured lists of 0-2 sources / keys and a request source / key
// given as symbolic-byte strings: accepted iff (no sources configured, or the
// source is listed byte for byte and consists of [a-z0-9.-/] only) and (no
// keys configured, or the key is listed byte for byte).
func H_C15_Validator(v *verifrt.T) {
	l := v.Param("L", 2)
	allSources := []string{"src", "a/b"}
	allKeys := []string{"k1", "K1"}
	ns := v.Choose("configured-sources", 3)
	nk := v.Choose("configured-keys", 3)
	conf := &sts.ServerConf{Sources: allSources[:ns], Keys: allKeys[:nk]}
	a := &serverApp{conf: conf}
	source := v.Bytes("source", 1+v.Choose("source-len", l+1))
	key := v.Bytes("key", v.Choose("key-len", l+1))
	got := a.standardValidator(source, key)
	srcListed := false
	for _, s := range conf.Sources {
		srcListed = verifrt.Or(srcListed, s == source)
	}
	keyListed := false
	for _, k := range conf.Keys {
		keyListed = verifrt.Or(keyListed, k == key)
	}
	// "." and ".." are never names of a source (C14: as directory names they
	// denote the receiver's roots or their parent)
	dots := verifrt.Or(source == ".", source == "..")
	want := verifrt.And(verifrt.Not(dots), verifrt.And(verifrt.Or(ns == 0, srcListed), verifrt.Or(nk == 0, keyListed)))
	v.Assert(got == want, "C15.O1 a request is accepted exactly when its source and key are allowed")
	if got {
		v.Reach("accepted")
	} else {
		v.Reach("rejected")
	}
}
