//go:build verif

package store

// C02 / C17 — the real Local.Sync (the test "is the file on disk still the
// version that was hashed and sent?" that finish() and the scan clean-up rely
// on before they release or delete a source file).

import (
	"os"
	"path/filepath"
	"time"

	"github.com/arm-doe/sts"
	"github.com/arm-doe/sts/internal/verifrt"
)

func init() {
	verifrt.Register("H_C02_StoreSync", H_C02_StoreSync)
}

// A file is scanned (that is the version which gets hashed, sent and
// confirmed). Afterwards nothing happens to it, or it is rewritten (same or
// other size; modification time moved by any non-zero amount down to one
// nanosecond, or unchanged when the size differs), or it is removed. Sync on
// the scanned description must say "unchanged" (nil, nil) exactly in the first
// case, hand back the new description in the second and an IsNotExist error in
// the third.
func H_C02_StoreSync(v *verifrt.T) {
	root := filepath.Join(v.TempRoot(), "out")
	v.Version("v1", 4)
	v.Version("v2", 4)
	v.Version("v3", 7)
	age := v.Duration("age", time.Hour, 2*time.Hour)
	p := filepath.Join(root, "a.dat")
	v.PutVersionFile(p, "v1")
	v.SetAge(p, age)
	dir := &Local{Root: root, MinAge: time.Second}
	dir.AddStandardIgnore()
	files, _, err := dir.Scan(func(sts.File) bool { return true })
	v.Assert(err == nil && len(files) == 1, "set-up: the file is scanned")
	if len(files) != 1 {
		return
	}
	orig := files[0]
	switch v.Choose("what-happens-to-the-file", 3) {
	case 0:
		v.Reach("unchanged")
		f, err := dir.Sync(orig)
		v.Assert(err == nil && f == nil, "C02/C17 a file that was not touched since it was scanned is reported unchanged")
	case 1:
		dt := v.Duration("mtime-change", -30*time.Minute, 30*time.Minute)
		tag := "v2"
		if v.Choose("other-size", 2) == 1 {
			tag = "v3"
		} else {
			v.Assume(dt != 0)
		}
		os.Remove(p)
		v.PutVersionFile(p, tag)
		v.SetAge(p, age-dt)
		v.Reach("rewritten")
		f, err := dir.Sync(orig)
		v.Assert(err == nil, "Sync succeeds on an existing file")
		v.Assert(f != nil, "C02/C17 a file rewritten since it was scanned (other size, or modification time different by any amount) is reported as changed: it is not the version that was sent")
	case 2:
		os.Remove(p)
		v.Reach("removed")
		_, err := dir.Sync(orig)
		v.Assert(err != nil && dir.IsNotExist(err), "C02/C17 a file removed since it was scanned is reported as missing")
	}
}
