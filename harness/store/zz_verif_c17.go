//go:build verif

package store

// C17 — only eligible files are sent: the scan filter of store.Local.

import (
	"os"
	"path/filepath"
	"regexp"
	"time"

	"github.com/arm-doe/sts"
	"github.com/arm-doe/sts/internal/verifrt"
)

func init() {
	verifrt.Register("H_C17_Eligible", H_C17_Eligible)
	verifrt.Register("H_C17_Node", H_C17_Node)
	verifrt.Register("H_C17_StoreScan", H_C17_StoreScan)
}

// c17segStart: position p starts a path segment
func c17segStart(name string, p int) bool {
	if p == 0 {
		return true
	}
	return name[p-1] == '/'
}

func c17hasSuffix(name, suf string) bool {
	if len(name) < len(suf) {
		return false
	}
	ok := true
	for k := 0; k < len(suf); k++ {
		ok = verifrt.And(ok, name[len(name)-len(suf)+k] == suf[k])
	}
	return ok
}

func c17hasPrefix(name, pre string) bool {
	if len(name) < len(pre) {
		return false
	}
	ok := true
	for k := 0; k < len(pre); k++ {
		ok = verifrt.And(ok, name[k] == pre[k])
	}
	return ok
}

// O1/O2: shouldIgnore for an arbitrary relative name (symbolic bytes, ≤ L,
// well-formed: no empty segment, no leading / trailing slash): ignored iff
// hidden (last segment starts with '.') and hidden files are not enabled, or
// it ends in .lck (standard ignore), or a configured ignore pattern matches,
// or (files only) include patterns are configured and none matches.
func H_C17_Eligible(v *verifrt.T) {
	l := v.Param("L", 5)
	name := v.Bytes("name", 1+v.Choose("len", l))
	n := len(name)
	v.Assume(name[0] != '/')
	v.Assume(name[n-1] != '/')
	for p := 1; p < n; p++ {
		v.Assume(verifrt.Not(verifrt.And(name[p] == '/', name[p-1] == '/')))
	}
	includeHidden := v.Bool("include-hidden")
	userIgnore := v.Choose("user-ignore-pattern", 2) == 1
	include := v.Choose("include-pattern", 2) == 1
	isDir := v.Choose("is-dir", 2) == 1
	dir := &Local{Root: "/out", IncludeHidden: includeHidden}
	dir.AddStandardIgnore()
	if userIgnore {
		dir.Ignore = append(dir.Ignore, regexp.MustCompile(`^t/`))
	}
	if include {
		dir.Include = []*regexp.Regexp{regexp.MustCompile(`\.d$`)}
	}
	got := dir.shouldIgnore(name, isDir)
	hidden := false
	for p := 0; p < n; p++ {
		tail := true
		for q := p + 1; q < n; q++ {
			tail = verifrt.And(tail, name[q] != '/')
		}
		hidden = verifrt.Or(hidden, verifrt.And(c17segStart(name, p), verifrt.And(name[p] == '.', tail)))
	}
	want := verifrt.And(verifrt.Not(includeHidden), hidden)
	want = verifrt.Or(want, c17hasSuffix(name, ".lck"))
	if userIgnore {
		want = verifrt.Or(want, c17hasPrefix(name, "t/"))
	}
	if !isDir && include {
		want = verifrt.Or(want, verifrt.Not(c17hasSuffix(name, ".d")))
	}
	v.Assert(got == want, "C17.O1 a name is filtered out exactly when it is hidden (and hidden files are off), matches an ignore pattern, or misses every include pattern")
	if got {
		v.Reach("ignored")
	} else {
		v.Reach("eligible")
	}
}

// O1 (age / allow): handleNode appends a file iff it is not ignored, at least
// MinAge old (measured against the scan start) and allowed by the caller.
func H_C17_Node(v *verifrt.T) {
	root := filepath.Join(v.TempRoot(), "out")
	v.Version("v1", 4)
	names := []string{"a.dat", ".hid", "d/b.dat", "d/.h2", "x.lck"}
	name := names[v.Choose("name", len(names))]
	path := filepath.Join(root, name)
	v.PutVersionFile(path, "v1")
	minAge := v.Duration("min-age", 0, 48*time.Hour)
	// the scan started `walk` ago (a large tree takes a while); ages are
	// measured at the START of the scan, so that one scan sees one instant
	walk := v.Duration("scan-running-for", 0, time.Hour)
	ageNow := v.Duration("age", 0, 96*time.Hour)
	v.Assume(ageNow >= walk)
	age := ageNow - walk
	v.Assume(verifrt.Or(age+time.Minute <= minAge, age >= minAge+time.Minute))
	v.SetAge(path, ageNow)
	allow := v.Bool("caller-allows")
	dir := &Local{Root: root, MinAge: minAge}
	dir.AddStandardIgnore()
	dir.scanTimeStart = v.Now().Add(-walk)
	dir.shouldAllow = func(sts.File) bool { return allow }
	info, err := os.Lstat(path)
	v.Assert(err == nil, "set-up")
	v.Assert(dir.handleNode(path, info, nil) == nil, "no error")
	eligible := name == "a.dat" || name == "d/b.dat"
	want := eligible && age >= minAge && allow
	v.Assert((len(dir.scanFiles) == 1) == want, "C17.O1 a file is queued iff it is not hidden / ignored, at least MinAge old when the scan started, and allowed")
	if len(dir.scanFiles) == 1 {
		v.Assert(dir.scanFiles[0].GetName() == name, "C17 the queued file carries its path relative to the outgoing directory")
		v.Reach("queued")
	} else {
		v.Reach("skipped")
	}
}

// O1c: the real Local.Scan (directory walk, per-node filter) over a small tree
// on the file-system model, twice — between the scans one file is deleted and
// one is added. Each scan returns exactly the files that exist and are
// eligible at that scan (old enough at its start, not hidden, not ignored),
// each once: nothing from an earlier scan leaks into a later one.
func H_C17_StoreScan(v *verifrt.T) {
	root := filepath.Join(v.TempRoot(), "out")
	v.Version("v1", 4)
	minAge := v.Duration("min-age", time.Second, time.Hour)
	put := func(name string, age time.Duration) {
		p := filepath.Join(root, name)
		v.PutVersionFile(p, "v1")
		v.SetAge(p, age)
	}
	ageA := v.Duration("age-a", 0, 2*time.Hour)
	v.Assume(verifrt.Or(ageA+time.Minute <= minAge, ageA >= minAge+time.Minute))
	put("a.dat", ageA)
	put("d/b.dat", 3*time.Hour)
	put(".hidden", 3*time.Hour)
	dir := &Local{Root: root, MinAge: minAge}
	dir.AddStandardIgnore()
	names := func(fs []sts.File) map[string]int {
		m := map[string]int{}
		for _, f := range fs {
			m[f.GetName()]++
		}
		return m
	}
	first, _, err := dir.Scan(func(sts.File) bool { return true })
	v.Assert(err == nil, "C17 the scan succeeds")
	got := names(first)
	wantA := 0
	if ageA >= minAge {
		wantA = 1
	}
	v.Assert(got["a.dat"] == wantA && got["d/b.dat"] == 1 && got[".hidden"] == 0 && len(got) == wantA+1, "C17.O1 a scan returns exactly the eligible files, each once")
	// between the scans: d/b.dat is sent and removed, c.dat appears
	os.Remove(filepath.Join(root, "d/b.dat"))
	put("c.dat", 3*time.Hour)
	second, _, err := dir.Scan(func(sts.File) bool { return true })
	v.Assert(err == nil, "C17 the scan succeeds")
	got2 := names(second)
	v.Assert(got2["d/b.dat"] == 0, "C17.O1 a file that no longer exists is not returned by a later scan")
	v.Assert(got2["a.dat"] == wantA && got2["c.dat"] == 1 && len(got2) == wantA+1, "C17.O1 a later scan returns exactly what is there and eligible now, each file once (nothing left over from the earlier scan)")
	v.Reach("scanned-twice")
}
