//go:build verif

package store

import (
	"testing"

	"github.com/arm-doe/sts/internal/verifrt"
	"github.com/arm-doe/sts/log"
	"github.com/arm-doe/sts/mock"
)

func TestVerifReplay(t *testing.T) {
	log.InitExternal(&mock.Logger{})
	verifrt.RunReplay(func(s string) { t.Fatal(s) })
}
