//go:build verif

// Package verifrt is the harness run-time of the /verif solver-based checks.
//
// It has two implementations of one API. Under the symbolic engine every
// function below is an intrinsic (the bodies here are never interpreted):
// Int64 & co. return fresh symbolic values, Choose forks, Assume extends the
// path condition, Assert is a solver query. Compiled natively (go test
// -tags verif -overlay ...) the same calls read the solver's counterexample
// from the replay file named by VERIF_REPLAY, so that the very same harness
// function re-runs the violation against the real, compiled code.
package verifrt

import (
	"encoding/json"
	"fmt"
	"os"
	"time"
)

type Input struct {
	Kind  string `json:"kind"`
	Tag   string `json:"tag"`
	Var   string `json:"var,omitempty"`
	Value int64  `json:"value"`
}

type Replay struct {
	Property string  `json:"property"`
	Package  string  `json:"package"`
	Harness  string  `json:"harness"`
	Label    string  `json:"label"`
	Kind     string  `json:"kind"`
	Msg      string  `json:"msg,omitempty"`
	KF       string  `json:"known_finding,omitempty"`
	Inputs   []Input `json:"inputs"`
	Images   []Image `json:"images"`
}

// Image is the file-system state at a crash point, as the engine computed it
// from the real code (solver values filled in).
type Image struct {
	Call  int         `json:"call"`
	Files []ImageFile `json:"files"`
}

type ImageFile struct {
	Path string     `json:"path"`
	Dir  bool       `json:"dir"`
	Size int64      `json:"size"`
	Segs []ImageSeg `json:"segs"`
	Text string     `json:"text"`
}

type ImageSeg struct {
	Off int64  `json:"off"`
	N   int64  `json:"n"`
	Tag string `json:"tag"`
	Src int64  `json:"src"`
}

// T is the handle a harness receives.
type T struct {
	inputs     []Input
	pos        int
	Failed     []string
	mismatch   string
	tmp        string
	images     []Image
	crashCalls int
	cleanup    []func()
	start      time.Time
}

type assumeFalse struct{}
type stopReplay struct{}
type replayMismatch struct{ msg string }

var registry = map[string]func(*T){}

// Register makes a harness available to the native replay driver.
func Register(name string, f func(*T)) { registry[name] = f }

func (t *T) next(kind, tag string) int64 {
	if t.pos >= len(t.inputs) {
		if len(t.Failed) > 0 {
			// the engine stopped recording at the violated assertion
			panic(stopReplay{})
		}
		panic(replayMismatch{fmt.Sprintf("replay ran out of inputs at %s %q", kind, tag)})
	}
	in := t.inputs[t.pos]
	t.pos++
	if in.Kind != kind || in.Tag != tag {
		panic(replayMismatch{fmt.Sprintf("replay input %d is %s %q, harness asked for %s %q", t.pos-1, in.Kind, in.Tag, kind, tag)})
	}
	return in.Value
}

// Param returns a bound of the harness (tier dependent, concrete).
func (t *T) Param(name string, def int) int { return int(t.next("param", name)) }

// Bool, Int64, Int, Byte return arbitrary values.
func (t *T) Bool(tag string) bool   { return t.next("bool", tag) != 0 }
func (t *T) Int64(tag string) int64 { return t.next("int64", tag) }
func (t *T) Int(tag string) int     { return int(t.next("int", tag)) }
func (t *T) Byte(tag string) byte   { return byte(t.next("byte", tag)) }

// Bytes returns an arbitrary string of exactly n bytes (none of them '\n' or 0).
func (t *T) Bytes(tag string, n int) string {
	b := make([]byte, n)
	for i := range b {
		b[i] = byte(t.next("byte", tag))
	}
	return string(b)
}

// FixClock makes the model clock the real current time (so that code that
// derives file names from the date behaves the same natively).
func (t *T) FixClock() {}

// Choose is a decision among n alternatives (the engine explores all).
func (t *T) Choose(tag string, n int) int { return int(t.next("choose", tag)) }

// Observed carries a (concrete) value the harness computed while the code under
// test ran into the replay: under the engine it returns x and records it;
// natively — where the part of the scenario that produced x may not be
// re-run (a crash image is materialised instead) — it returns the recorded
// value.
func (t *T) Observed(tag string, x int) int { return int(t.next("observed", tag)) }

// Assume restricts the inputs (states a bound or a documented precondition).
func (t *T) Assume(c bool) {
	if !c {
		panic(assumeFalse{})
	}
}

// Assert states the property.
func (t *T) Assert(c bool, label string) {
	if !c {
		t.Failed = append(t.Failed, label)
	}
}

// AssertKF is Assert for an obligation with a listed known finding: trigger
// characterises the inputs of the finding.
func (t *T) AssertKF(c bool, label, kf string, trigger bool) {
	if !c {
		t.Failed = append(t.Failed, label)
	}
}

// Reach is a vacuity witness: the engine requires some feasible path to get here.
func (t *T) Reach(label string) {}

// Symbolic reports whether the harness runs under the symbolic engine.
func (t *T) Symbolic() bool { return false }

// Note records a trace line (shown with counterexamples).
func (t *T) Note(s string) { fmt.Println("NOTE", s) }

// Quiesce lets all goroutines run until none can make progress.
func (t *T) Quiesce() { time.Sleep(150 * time.Millisecond) }

// Live returns the number of goroutines started by the code under test that
// have not finished (engine only; natively unknown = 0).
func (t *T) Live() int { return 0 }

// Now returns the current instant.
func (t *T) Now() time.Time { return time.Now() }

// TimeAgo returns an instant at most maxAge before now, and its age.
func (t *T) TimeAgo(tag string, maxAge time.Duration) (time.Time, time.Duration) {
	age := time.Duration(t.next("int64", tag))
	return t.start.Add(-age), age
}

// Time returns an arbitrary instant (1 ns .. 2^62 ns after the Unix epoch).
func (t *T) Time(tag string) time.Time { return time.Unix(0, t.next("int64", tag)) }

// AnyTime returns an arbitrary instant before or after the Unix epoch
// (|ns| < 2^62, not the epoch itself).
func (t *T) AnyTime(tag string) time.Time { return time.Unix(0, t.next("int64", tag)) }

// Advance lets d pass on the model clock (native: the real clock cannot be
// moved; harnesses keep margins instead).
func (t *T) Advance(d time.Duration) {}

// Duration returns an arbitrary duration in [lo,hi].
func (t *T) Duration(tag string, lo, hi time.Duration) time.Duration {
	return time.Duration(t.next("int64", tag))
}

// And, Or, Not, Implies combine conditions without branching (so that oracles
// do not multiply paths in the engine).
func And(a, b bool) bool     { return a && b }
func Or(a, b bool) bool      { return a || b }
func Not(a bool) bool        { return !a }
func Implies(a, b bool) bool { return !a || b }

// ContentByte is byte off of the arbitrary content named tag (engine: an
// uninterpreted function of the offset; native: a fixed pseudo-random byte).
func ContentByte(tag string, off int64) byte {
	h := uint64(1469598103934665603)
	for i := 0; i < len(tag); i++ {
		h = (h ^ uint64(tag[i])) * 1099511628211
	}
	h = (h ^ uint64(off)) * 1099511628211
	h ^= h >> 29
	return byte(h)
}

// Ite64 is if c then a else b without branching.
func Ite64(c bool, a, b int64) int64 {
	if c {
		return a
	}
	return b
}

// RunReplayFile executes the harness named in the replay file natively and
// returns a one-line verdict: "REPRODUCED <label>", "NOT-REPRODUCED ...",
// "REPLAY-MISMATCH ...".
func RunReplayFile(path string) string {
	b, err := os.ReadFile(path)
	if err != nil {
		return "REPLAY-MISMATCH cannot read " + path + ": " + err.Error()
	}
	var r Replay
	if err := json.Unmarshal(b, &r); err != nil {
		return "REPLAY-MISMATCH bad replay file: " + err.Error()
	}
	f := registry[r.Harness]
	if f == nil {
		return "REPLAY-MISMATCH harness not registered: " + r.Harness
	}
	t := &T{inputs: r.Inputs, images: r.Images, start: time.Now()}
	verdict := ""
	func() {
		defer func() {
			for k := len(t.cleanup) - 1; k >= 0; k-- {
				t.cleanup[k]()
			}
			if x := recover(); x != nil {
				switch x := x.(type) {
				case stopReplay:
				case assumeFalse:
					verdict = "REPLAY-MISMATCH an assumption is false under the solver's values"
				case replayMismatch:
					verdict = "REPLAY-MISMATCH " + x.msg
				default:
					if r.Kind == "panic" {
						verdict = fmt.Sprintf("REPRODUCED panic: %v", x)
					} else {
						verdict = fmt.Sprintf("NOT-REPRODUCED harness panicked natively: %v", x)
					}
				}
			}
		}()
		f(t)
	}()
	if verdict != "" {
		return verdict
	}
	for _, l := range t.Failed {
		if l == r.Label {
			return "REPRODUCED " + l
		}
	}
	if len(t.Failed) > 0 {
		return fmt.Sprintf("REPRODUCED-OTHER %v (expected %s)", t.Failed, r.Label)
	}
	return "NOT-REPRODUCED all assertions held natively (expected " + r.Label + ")"
}

// RunReplay is called from the per-package TestVerifReplay.
func RunReplay(fail func(string)) {
	path := os.Getenv("VERIF_REPLAY")
	if path == "" {
		return
	}
	v := RunReplayFile(path)
	fmt.Println("VERIF-REPLAY-VERDICT:", v)
}
