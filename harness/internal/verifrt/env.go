//go:build verif

package verifrt

// Environment API: temp roots, content versions, readers, file checks. Under
// the engine these are intrinsics over the file-system model; natively they
// use a real temporary directory and real bytes.

import (
	"bytes"
	"crypto/md5"
	"errors"
	"fmt"
	"io"
	"net/http"
	"os"
	"path/filepath"
	"sort"
	"strings"
	"sync"
	"time"
)

var versions = map[string]int64{}

func gen(tag string, off, n int64) []byte {
	if n < 0 || n > 1<<24 {
		panic(replayMismatch{fmt.Sprintf("content of %d bytes requested natively (harness bound too large)", n)})
	}
	b := make([]byte, n)
	for i := range b {
		b[i] = ContentByte(tag, off+int64(i))
	}
	return b
}

// TempRoot returns a fresh directory for the scenario.
func (t *T) TempRoot() string {
	if t.tmp == "" {
		d, err := os.MkdirTemp("", "verif-root-")
		if err != nil {
			panic(err)
		}
		t.tmp = d
		t.cleanup = append(t.cleanup, func() { os.RemoveAll(d) })
	}
	return t.tmp
}

// Version declares a content version (tag) of the given size and returns the
// MD5 a sender would announce for it.
func (t *T) Version(tag string, size int64) string {
	versions[tag] = size
	return fmt.Sprintf("%x", md5.Sum(gen(tag, 0, size)))
}

// Reader delivers bytes [off, off+n) of version tag.
func (t *T) Reader(tag string, off, n int64) io.Reader { return bytes.NewReader(gen(tag, off, n)) }

// ReadSeekCloser is what a source-file handle offers.
type ReadSeekCloser interface {
	io.Reader
	io.Seeker
	io.Closer
}

type rsc struct{ *bytes.Reader }

func (rsc) Close() error { return nil }

// Readable is an open source file holding bytes [off, off+n) of version tag.
func (t *T) Readable(tag string, off, n int64) ReadSeekCloser {
	return rsc{bytes.NewReader(gen(tag, off, n))}
}

type failingReader struct {
	r io.Reader
}

func (f *failingReader) Read(p []byte) (int, error) {
	n, err := f.r.Read(p)
	if err == io.EOF {
		return n, errors.New("unexpected EOF (reader failed)")
	}
	return n, err
}

// FailingReader delivers n bytes and then fails instead of ending cleanly.
func (t *T) FailingReader(tag string, off, n int64) io.Reader {
	return &failingReader{bytes.NewReader(gen(tag, off, n))}
}

// FileIs reports whether the file holds exactly version tag.
func (t *T) FileIs(path, tag string) bool {
	b, err := os.ReadFile(path)
	if err != nil {
		return false
	}
	size, ok := versions[tag]
	return ok && bytes.Equal(b, gen(tag, 0, size))
}

func (t *T) Exists(path string) bool {
	_, err := os.Lstat(path)
	return err == nil
}

// Files lists the regular files below root (relative, sorted).
func (t *T) Files(root string) []string {
	var out []string
	filepath.Walk(root, func(p string, info os.FileInfo, err error) error {
		if err == nil && !info.IsDir() {
			out = append(out, strings.TrimPrefix(p, root+string(os.PathSeparator)))
		}
		return nil
	})
	sort.Strings(out)
	return out
}

// SetAge makes the file's modification time now-age.
func (t *T) SetAge(path string, age time.Duration) {
	m := time.Now().Add(-age)
	if err := os.Chtimes(path, m, m); err != nil {
		panic(replayMismatch{"SetAge: " + err.Error()})
	}
}

// PutVersionFile creates path holding exactly version tag.
func (t *T) PutVersionFile(path, tag string) {
	os.MkdirAll(filepath.Dir(path), 0o755)
	if err := os.WriteFile(path, gen(tag, 0, versions[tag]), 0o644); err != nil {
		panic(replayMismatch{"PutVersionFile: " + err.Error()})
	}
}

// OnFS installs a monitor called on every file-system operation (engine only).
func (t *T) OnFS(f func(op, path string)) {}

// FSMutations is the number of file-system mutations so far (engine only).
func (t *T) FSMutations() int { return 0 }

// RunUntilCrash runs f and kills the "process" immediately before its k-th
// file-system mutation. Under the engine the cut is exact. Natively the real
// process cannot be cut at a model mutation, so the replay does not run f:
// it materialises the crash image the engine computed from the real code (the
// on-disk state at the cut, with the solver's values) in the temp root and
// reports the crash; the recovery half of the scenario then runs against the
// real, compiled code. Without an image for this call f simply runs.
func (t *T) RunUntilCrash(k int, f func()) bool {
	call := t.crashCalls
	t.crashCalls++
	for _, img := range t.images {
		if img.Call != call {
			continue
		}
		root := t.TempRoot()
		for _, fl := range img.Files {
			p := filepath.Join(root, fl.Path)
			if fl.Dir {
				os.MkdirAll(p, 0o755)
				continue
			}
			os.MkdirAll(filepath.Dir(p), 0o755)
			var data []byte
			if fl.Text != "" || len(fl.Segs) == 0 {
				text := fl.Text
				// the engine's model hashes ("md5-<tag>") stand for the real MD5s
				for tag, size := range versions {
					text = strings.ReplaceAll(text, "md5-"+tag, fmt.Sprintf("%x", md5.Sum(gen(tag, 0, size))))
				}
				data = []byte(text)
				if int64(len(data)) < fl.Size {
					data = append(data, make([]byte, fl.Size-int64(len(data)))...)
				}
			} else {
				data = make([]byte, fl.Size)
				for _, sg := range fl.Segs {
					copy(data[sg.Off:], gen(sg.Tag, sg.Src, sg.N))
				}
			}
			if err := os.WriteFile(p, data, 0o644); err != nil {
				panic(replayMismatch{"crash image: " + err.Error()})
			}
		}
		return true
	}
	f()
	t.Quiesce()
	return false
}

// Served returns the handler of the HTTP server the code under test started
// on addr (engine only: the network is not modelled, requests are handed to
// the handler directly; natively nil — harnesses send a real request instead).
func (t *T) Served(addr string) http.Handler { return nil }

// NextTimer lets the earliest pending timer fire (engine: the model clock
// jumps to its deadline) and waits until everything is blocked again. Natively
// it waits a little — or, in a real-time replay (VERIF_REPLAY_SLOW), as long as
// the retry interval of the code under test (10 s) takes.
func (t *T) NextTimer() bool {
	if os.Getenv("VERIF_REPLAY_SLOW") != "" {
		time.Sleep(11 * time.Second)
	} else {
		time.Sleep(50 * time.Millisecond)
	}
	t.Quiesce()
	return true
}

// QuiesceTimers is Quiesce with a bound on the number of timers that may fire
// while waiting (engine; natively a plain Quiesce).
func (t *T) QuiesceTimers(n int) { t.Quiesce() }

// YieldOnFS: a goroutine (other than the harness) lets every other runnable
// goroutine run after each of its file-system calls (engine only).
func (t *T) YieldOnFS(on bool) {}

// DelayAtFS(k): the goroutine (other than the harness) that makes the k-th
// file-system call from now on is suspended right after that call until no
// other goroutine can run — one preemption at a chosen point, so that a
// harness can decide over k (engine only; k = 0 switches it off).
func (t *T) DelayAtFS(k int) {}

// YieldOnLock selects the engine's third deterministic schedule: a goroutine
// (other than the harness) that is about to take a mutex lets every other
// runnable goroutine run first (engine only).
func (t *T) YieldOnLock(on bool) {}

// YieldOnRead selects the engine's second deterministic schedule: a goroutine
// that reads file content (a hash pass) lets every other runnable goroutine
// run first (engine only).
func (t *T) YieldOnRead(on bool) {}

// KillProcess ends every goroutine of the code under test (engine only).
func (t *T) KillProcess() {}

// Held reports whether the mutex is held by somebody (lock-discipline audits).
func (t *T) Held(m any) bool {
	switch x := m.(type) {
	case *sync.Mutex:
		if x.TryLock() {
			x.Unlock()
			return false
		}
		return true
	case *sync.RWMutex:
		if x.TryLock() {
			x.Unlock()
			return false
		}
		return true
	}
	return true
}

// FireTimers lets pending timers fire (engine); natively waits a little — or,
// when a replay is repeated in real time (VERIF_REPLAY_SLOW), as long as the
// longest retry interval of the code under test (10 s) takes.
func (t *T) FireTimers() int {
	if os.Getenv("VERIF_REPLAY_SLOW") != "" {
		time.Sleep(11 * time.Second)
	} else {
		time.Sleep(50 * time.Millisecond)
	}
	return 0
}
