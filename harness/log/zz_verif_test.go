//go:build verif

package log

import (
	"testing"

	"github.com/arm-doe/sts/internal/verifrt"
)

type vQuietLogger struct{}

func (vQuietLogger) Debug(...interface{})   {}
func (vQuietLogger) Info(...interface{})    {}
func (vQuietLogger) Error(...interface{})   {}
func (vQuietLogger) Recent(int) []string    { return nil }

func TestVerifReplay(t *testing.T) {
	InitExternal(vQuietLogger{})
	verifrt.RunReplay(func(s string) { t.Fatal(s) })
}
