//go:build verif

package log

// C18 — transfer logs answer 'was this file sent/received' exactly.
// Names and hashes are symbolic-byte strings: the solver looks for any name
// that is found on the strength of another file's record.

import (
	"fmt"
	"os"
	"path/filepath"
	"strings"
	"time"

	"github.com/arm-doe/sts/internal/verifrt"
)

func init() {
	verifrt.Register("H_C18_Exact", H_C18_Exact)
	verifrt.Register("H_C18_Parse", H_C18_Parse)
}

type vRec struct {
	name, renamed, hash string
	size                int64
}

func (r *vRec) GetName() string    { return r.name }
func (r *vRec) GetRenamed() string { return r.renamed }
func (r *vRec) GetHash() string    { return r.hash }
func (r *vRec) GetSize() int64     { return r.size }
func (r *vRec) TimeMs() int64      { return 7 }

func c18noColon(v *verifrt.T, s string) {
	for i := 0; i < len(s); i++ {
		v.Assume(s[i] != ':')
	}
}

// O1: after writing ≤ R records with arbitrary names (length ≤ L) and hashes,
// WasReceived / WasSent(name, hash-or-empty) over a window containing today is
// true iff a record with exactly that name (and hash) was written.
func H_C18_Exact(v *verifrt.T) {
	l := v.Param("L", 3)
	nrec := 1 + v.Choose("records", v.Param("R", 2))
	sent := v.Choose("sent-log", 2) == 1
	v.FixClock()
	root := filepath.Join(v.TempRoot(), "log")
	f := NewFileIO(root, nil, nil, false)
	var recs []*vRec
	colon := false
	// the process may restart between two records (a new logger appends to
	// the same day file) and before the look-up
	restartBefore := v.Choose("restart-before-record", nrec+1) // 0: none, k: before record k (1-based; record 1 = no earlier records)
	for k := 0; k < nrec; k++ {
		if restartBefore == k+1 && k > 0 {
			f = NewFileIO(root, nil, nil, false)
			v.Reach("restarted")
		}
		name := v.Bytes("name", 1+v.Choose("name-len", l))
		hash := v.Bytes("hash", 2)
		c18noColon(v, hash)
		r := &vRec{name: name, hash: hash, size: int64(5 + k)}
		recs = append(recs, r)
		colon = verifrt.Or(colon, strings.Contains(name, ":"))
		if sent {
			f.Sent(r)
		} else {
			f.Received(r)
		}
	}
	q := v.Bytes("query", 1+v.Choose("query-len", l))
	colon = verifrt.Or(colon, strings.Contains(q, ":"))
	qh := ""
	if v.Choose("with-hash", 2) == 1 {
		qh = v.Bytes("query-hash", 2)
		c18noColon(v, qh)
	}
	want := false
	for _, r := range recs {
		want = verifrt.Or(want, verifrt.And(r.name == q, verifrt.Or(qh == "", r.hash == qh)))
	}
	now := time.Now()
	var got bool
	if sent {
		got = f.WasSent(q, qh, now.Add(-time.Hour), now.Add(time.Hour))
	} else {
		got = f.WasReceived(q, qh, now.Add(-time.Hour), now.Add(time.Hour))
	}
	if got {
		v.Reach("found")
		v.AssertKF(want, "C18.O1 a look-up never answers yes on the strength of another file's record (or another hash)",
			"KF-C18-colon-in-name", colon)
	} else {
		v.Reach("not-found")
		v.AssertKF(verifrt.Not(want), "C18.O1 a look-up finds every record of exactly that name (and hash)",
			"KF-C18-colon-in-name", colon)
	}
}

// O2: replaying the receive log yields, for every record written, the same
// name, rename, hash and size.
func H_C18_Parse(v *verifrt.T) {
	l := v.Param("L", 3)
	v.FixClock()
	root := filepath.Join(v.TempRoot(), "log")
	f := NewFileIO(root, nil, nil, false)
	name := v.Bytes("name", 1+v.Choose("name-len", l))
	renamed := ""
	if v.Choose("renamed", 2) == 1 {
		renamed = v.Bytes("renamed", 1+v.Choose("renamed-len", 2))
	}
	hash := v.Bytes("hash", 2)
	c18noColon(v, hash)
	// bound: no ':' in the name fields (the record format does not escape its
	// separator — listed as known finding KF-C18-colon-in-name, demonstrated by
	// H_C18_Exact)
	c18noColon(v, name)
	c18noColon(v, renamed)
	sizes := []int64{42, 1 << 31, 5 << 30}
	size := sizes[v.Choose("size", len(sizes))]
	f.Received(&vRec{name: name, renamed: renamed, hash: hash, size: size})
	n := 0
	now := time.Now()
	f.Parse(func(pn, pr, ph string, psize int64, t time.Time) bool {
		n++
		v.Assert(pn == name, "C18.O2 replayed name")
		v.Assert(pr == renamed, "C18.O2 replayed rename")
		v.Assert(ph == hash, "C18.O2 replayed hash")
		v.Assert(psize == size, "C18.O2 replayed size")
		// the record carries the time it was written (whole seconds)
		v.Assert(t.Unix() == now.Unix(), "C18.O2 replayed time of the record")
		return false
	}, now.Add(-time.Hour), now.Add(time.Hour))
	v.Assert(n == 1, "C18.O2 every record written is replayed once")
	v.Reach("parsed")
}

func init() {
	verifrt.Register("H_C18_Windows", H_C18_Windows)
}

// O3: a record written on day R (a day file created through the logger's own
// path scheme, around a month boundary) is found by every window
// [after, before] whose calendar days include R — for every time of day of the
// window's ends (symbolic nanoseconds within the day).
func H_C18_Windows(v *verifrt.T) {
	v.FixClock()
	root := filepath.Join(v.TempRoot(), "log")
	f := NewFileIO(root, nil, nil, false)
	base := time.Date(2024, 1, 30, 0, 0, 0, 0, time.UTC) // 30 Jan, 31 Jan, 1 Feb, 2 Feb, 3 Feb
	days := v.Param("DAYS", 4)
	rd := v.Choose("record-day", days)
	rec := base.Add(time.Duration(rd)*24*time.Hour + 12*time.Hour)
	path := f.logger.getPath(rec)
	os.MkdirAll(filepath.Dir(path), 0o755)
	line := fmt.Sprintf("%s:%s:%s:%d:%d:\n", "dir/a.dat", "", "h1", 5, rec.Unix())
	os.WriteFile(path, []byte(line), 0o644)
	da := v.Choose("after-day", days)
	db := v.Choose("before-day", days)
	v.Assume(da <= db)
	sa := v.Duration("after-time-of-day", 0, 24*time.Hour-1)
	sb := v.Duration("before-time-of-day", 0, 24*time.Hour-1)
	after := base.Add(time.Duration(da) * 24 * time.Hour).Add(sa)
	before := base.Add(time.Duration(db) * 24 * time.Hour).Add(sb)
	v.Assume(after.Before(before))
	got := f.WasReceived("dir/a.dat", "h1", after, before)
	touched := da <= rd && rd <= db
	if touched {
		v.Assert(got, "C18.O3 a record written on a day the window touches is found (across day and month boundaries)")
		v.Reach("touched")
	} else {
		v.Reach("not-touched")
	}
	n := 0
	f.Parse(func(name, renamed, hash string, size int64, t time.Time) bool {
		n++
		return false
	}, after, before)
	if touched {
		v.Assert(n >= 1, "C18.O3 replaying the window yields the record written on a day it touches")
	}
}
