//go:build verif

package sts

// C19.O3/O5 — tag-level inheritance and the parse -> JSON -> parse hop.

import (
	"regexp"
	"time"

	"github.com/alecthomas/units"
	"github.com/arm-doe/sts/internal/verifrt"
	"github.com/arm-doe/sts/marshal"
)

func init() {
	verifrt.Register("H_C19_Reencode", H_C19_Reencode)
	verifrt.Register("H_C19_DurationText", H_C19_DurationText)
}

type c19tag struct {
	delete, givenDelete bool
	prio                int
	givenPrio           bool
	delay               time.Duration
}

func c19rtTag(v *verifrt.T, t *TagConf) *TagConf {
	b, err := t.MarshalJSON()
	if err != nil {
		v.Assert(false, "C19 a tag is encoded without error")
		return &TagConf{}
	}
	t2 := &TagConf{}
	if err = t2.UnmarshalJSON(b); err != nil {
		v.Assert(false, "C19 an encoded tag is parsed without error")
	}
	return t2
}

// the order in which encoding/json calls the (un)marshalers of a source and of
// its tags is composed here (the JSON model treats the aux structures as
// opaque snapshots and does not call nested marshalers itself)
func c19rtSource(v *verifrt.T, s *SourceConf) *SourceConf {
	tags := s.Tags
	var tags2 []*TagConf
	for _, t := range tags {
		tags2 = append(tags2, c19rtTag(v, t))
	}
	s.Tags = nil
	b, err := s.MarshalJSON()
	s.Tags = tags
	if err != nil {
		v.Assert(false, "C19 a source is encoded without error")
		return &SourceConf{}
	}
	s2 := &SourceConf{}
	if err = s2.UnmarshalJSON(b); err != nil {
		v.Assert(false, "C19 an encoded source is parsed without error")
	}
	s2.Tags = tags2
	return s2
}

var c19pats = []*regexp.Regexp{regexp.MustCompile(`\.nc$`), regexp.MustCompile(`^raw/`), regexp.MustCompile(`\.tmp$`), regexp.MustCompile(`^old/`)}

func c19samePats(a, b []*regexp.Regexp) bool {
	if len(a) != len(b) {
		return false
	}
	for k := range a {
		if a[k].String() != b[k].String() {
			return false
		}
	}
	return true
}

// Two sources, each with a default tag and one pattern tag; the first source is
// concrete, the option values of the second and their presence are symbolic. (1) after the real propagate() a
// tag's delete is its own value if given — also an explicit false — else the
// default tag's; priority and delete-delay likewise (explicit zero = listed
// finding). (2) every source and tag is then encoded by the real MarshalJSON
// and parsed back by the real UnmarshalJSON / applyAux, the result is
// propagated again: the effective configuration is the same.
func H_C19_Reencode(v *verifrt.T) {
	pat := regexp.MustCompile(`^keep/`)
	sizes := []units.Base2Bytes{0, 1024, 1536}
	conf := &ClientConf{}
	var own [][2]c19tag
	for k := 0; k < 2; k++ {
		// the first source is concrete (everything given, so that there is
		// something to inherit), the second one symbolic
		tg := [2]c19tag{
			{delete: true, givenDelete: true, prio: 3, givenPrio: true, delay: time.Hour},
			{delete: false, givenDelete: false, prio: 7, givenPrio: true, delay: 0},
		}
		threads, stat, givenStat, backoff := 4, true, true, 0.5
		binSize, chunk := sizes[1], sizes[2]
		minAge := time.Minute
		if k == 1 {
			tg[0].delete = v.Bool("default-delete")
			tg[0].givenDelete = tg[0].delete
			tg[1].givenDelete, tg[1].delete = v.Bool("given-delete"), v.Bool("delete")
			tg[1].prio = v.Int("priority")
			tg[1].givenPrio = tg[1].prio != 0
			tg[1].delay = v.Duration("delete-delay", 0, 1000*time.Hour)
			v.Assume(verifrt.Or(tg[1].givenDelete, verifrt.Not(tg[1].delete)))
			threads, stat, givenStat = v.Int("threads"), v.Bool("stat"), v.Bool("given-stat")
			v.Assume(verifrt.Or(givenStat, verifrt.Not(stat)))
			backoff = []float64{0, 0.5, 2}[v.Choose("backoff", 3)]
			binSize = sizes[v.Choose("bin-size", len(sizes))]
			chunk = sizes[v.Choose("chunk-size", len(sizes))]
			minAge = v.Duration("min-age", 0, 1000*time.Hour)
		}
		own = append(own, tg)
		// include / ignore lists of different lengths (the re-encoder writes
		// both into one array and splits it again)
		// (built the way the parser builds them: one array, split in two)
		ni, ng := 2, 1
		if k == 1 {
			lay := [][2]int{{0, 0}, {1, 2}, {2, 1}, {2, 0}}[v.Choose("include-and-ignore-patterns", 4)]
			ni, ng = lay[0], lay[1]
		}
		var all []*regexp.Regexp
		all = append(all, c19pats[:ni]...)
		all = append(all, c19pats[2:2+ng]...)
		incl, ign := all[0:ni], all[ni:]
		conf.Sources = append(conf.Sources, &SourceConf{
			Include: incl, Ignore: ign,
			Name: string(rune('a' + k)), Threads: threads,
			StatPayload: stat, isStatPayloadSet: verifrt.And(givenStat, verifrt.Not(stat)),
			ErrorBackoff: backoff, isErrorBackoffSet: backoff != 0,
			BinSize: binSize,
			MinAge:  minAge,
			Tags: []*TagConf{
				{Method: MethodHTTP, Order: OrderFIFO, Priority: tg[0].prio, Delete: tg[0].delete,
					isDeleteSet: verifrt.And(tg[0].givenDelete, verifrt.Not(tg[0].delete)), DeleteDelay: tg[0].delay},
				{Pattern: pat, Priority: tg[1].prio, Delete: tg[1].delete,
					isDeleteSet: verifrt.And(tg[1].givenDelete, verifrt.Not(tg[1].delete)), DeleteDelay: tg[1].delay,
					ChunkSize: chunk},
			},
		})
	}
	conf.propagate()
	// (1) tag-level inheritance
	for k := 0; k < 2; k++ {
		t0, t1 := conf.Sources[k].Tags[0], conf.Sources[k].Tags[1]
		o0, o1 := own[k][0], own[k][1]
		v.Assert(t0.Delete == o0.delete && t0.Priority == o0.prio, "C19 the default tag keeps its own values")
		wantDelete := o0.delete
		if o1.givenDelete {
			wantDelete = o1.delete
		}
		v.Assert(t1.Delete == wantDelete, "C19 tag delete: own value if given (also an explicit false), else the default tag's")
		wantPrio := o0.prio
		if o1.givenPrio {
			wantPrio = o1.prio
		}
		v.Assert(t1.Priority == wantPrio, "C19 tag priority: own value if given, else the default tag's")
		v.Assert(t1.Method == MethodHTTP && t1.Order == OrderFIFO, "C19 method and order omitted for a tag are the default tag's")
		v.Assert(t1.Pattern == pat, "C19 a tag keeps its pattern")
	}
	v.Reach("propagated")
	// (2) parse -> JSON -> parse
	conf2 := &ClientConf{}
	for _, s := range conf.Sources {
		conf2.Sources = append(conf2.Sources, c19rtSource(v, s))
	}
	conf2.propagate()
	for k := 0; k < 2; k++ {
		a, b := conf.Sources[k], conf2.Sources[k]
		v.Assert(a.Name == b.Name && a.Threads == b.Threads && a.MinAge == b.MinAge && a.BinSize == b.BinSize &&
			a.IncludeHidden == b.IncludeHidden, "C19 re-encoding keeps the plain options of a source")
		v.Assert(c19samePats(a.Include, b.Include), "C19 re-encoding keeps the include patterns of a source")
		v.Assert(c19samePats(a.Ignore, b.Ignore), "C19 re-encoding keeps the ignore patterns of a source")
		v.Assert(a.StatPayload == b.StatPayload, "C19 re-encoding keeps stat-payload (also an explicit false)")
		v.Assert(a.ErrorBackoff == b.ErrorBackoff, "C19 re-encoding keeps error-backoff")
		if len(b.Tags) != 2 {
			v.Assert(false, "C19 re-encoding keeps the tags")
			return
		}
		for j := 0; j < 2; j++ {
			ta, tb := a.Tags[j], b.Tags[j]
			v.Assert(ta.Delete == tb.Delete, "C19 re-encoding keeps a tag's delete (also an explicit false)")
			v.Assert(ta.Priority == tb.Priority && ta.Method == tb.Method && ta.Order == tb.Order &&
				ta.DeleteDelay == tb.DeleteDelay && ta.ChunkSize == tb.ChunkSize, "C19 re-encoding keeps a tag's options")
			v.Assert((ta.Pattern == nil) == (tb.Pattern == nil) && (ta.Pattern == nil || ta.Pattern.String() == tb.Pattern.String()), "C19 re-encoding keeps a tag's pattern")
		}
	}
	v.Reach("re-encoded")
}

// The text form of durations in a re-encoded configuration: the real
// marshal.Duration.MarshalJSON -> UnmarshalJSON. (A concrete grid: the digits of
// a duration are not modelled symbolically, so this obligation is decided by
// execution of the listed values, not by the solver; it is here because the
// structure-level re-encoding harness passes durations through untouched.)
func H_C19_DurationText(v *verifrt.T) {
	grid := []time.Duration{0, 1, 400 * time.Millisecond, 1500 * time.Millisecond, 59*time.Second + 999999999,
		time.Hour + 2*time.Minute + 3*time.Second + 4, 1000 * time.Hour, 90 * time.Second}
	d := grid[v.Choose("duration", len(grid))]
	b, err := marshal.Duration{Duration: d}.MarshalJSON()
	v.Assert(err == nil, "C19 a duration is encoded without error")
	var back marshal.Duration
	err = back.UnmarshalJSON(b)
	v.Assert(err == nil, "C19 an encoded duration is parsed without error")
	v.Assert(back.Duration == d, "C19 a duration survives encoding to JSON and parsing again exactly (sub-second values included)")
	v.Reach("round-trip")
}
