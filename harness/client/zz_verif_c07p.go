//go:build verif

package client

// C07 / C02 — the whole sender pipeline (real Broker.Start: recovery, scan,
// hashing, cache, queue, binning, send, track, validate, finish) against a
// receiver that survives, with the sender killed before any of its
// file-system calls and restarted.

import (
	"errors"
	"os"
	"path/filepath"
	"time"

	"github.com/arm-doe/sts"
	"github.com/arm-doe/sts/cache"
	"github.com/arm-doe/sts/internal/verifrt"
	"github.com/arm-doe/sts/marshal"
	"github.com/arm-doe/sts/payload"
	"github.com/arm-doe/sts/queue"
)

func init() {
	verifrt.Register("H_C07_Pipeline", H_C07_Pipeline)
}

// vRecv is the receiving side as the sender sees it through its four requests.
// It is another process: what it holds survives a sender crash.
type vRecv struct {
	v        *verifrt.T
	size     map[string]int64
	hash     map[string]string
	ranges   map[string][][2]int64
	sent     int64 // bytes transmitted in total
	resent   int64 // bytes transmitted although the receiver already held them
	requests int
	faults   int // transmissions that may still fail
	prev      map[string]string // predecessor announced for each file (last seen)
	prevBad   bool              // a file was announced with a wrong predecessor
	confirmed map[string]bool   // versions the receiver has confirmed as delivered
}

func (r *vRecv) held(name string) int64 {
	n := int64(0)
	for _, p := range r.ranges[name] {
		n += p[1] - p[0]
	}
	return n
}

func (r *vRecv) complete(name string) bool {
	return r.size[name] > 0 && r.held(name) == r.size[name]
}

func (r *vRecv) has(name string, beg, end int64) bool {
	for _, p := range r.ranges[name] {
		if p[0] == beg && p[1] == end {
			return true
		}
	}
	return false
}

// transmit: the data request. While the fault budget lasts a request may fail
// (1) before the receiver got anything, (2) after the receiver recorded the
// first part, with the answer lost, (3) the same with a 206 answer carrying
// the number of parts recorded.
func (r *vRecv) transmit(p sts.Payload) (int, error) {
	r.requests++
	fault := 0
	if r.faults > 0 {
		if fault = r.v.Choose("transmit-fault", 4); fault != 0 {
			r.faults--
		}
	}
	if fault == 1 {
		return 0, errFault
	}
	for k, part := range p.GetParts() {
		if fault >= 2 && k >= 1 {
			break
		}
		beg, n := part.GetSlice() // sender-side parts: (offset, length)
		end := beg + n
		name := part.GetName()
		if r.prev == nil {
			r.prev = map[string]string{}
		}
		// the newer file names the older one as its predecessor — or nobody,
		// but only once the receiver has confirmed the older one as delivered
		// (the sender may then have deleted and forgotten it)
		switch {
		case name == "g/a" && part.GetPrev() != "":
			r.prevBad = true
		case name == "g/b" && part.GetPrev() != "g/a" && !(part.GetPrev() == "" && r.confirmed["g/a"]):
			r.prevBad = true
		}
		r.prev[name] = part.GetPrev()
		if r.hash[name] != part.GetFileHash() {
			// another version: what was held belongs to the old one
			r.ranges[name], r.hash[name], r.size[name] = nil, part.GetFileHash(), part.GetFileSize()
		}
		for _, q := range r.ranges[name] {
			lo, hi := beg, end
			if q[0] > lo {
				lo = q[0]
			}
			if q[1] < hi {
				hi = q[1]
			}
			if hi > lo {
				r.resent += hi - lo
			}
		}
		r.sent += end - beg
		if !r.has(name, beg, end) {
			r.ranges[name] = append(r.ranges[name], [2]int64{beg, end})
		}
	}
	switch fault {
	case 2:
		return 0, errFault
	case 3:
		return 1, errFault
	}
	return len(p.GetParts()), nil
}

var errFault = errors.New("connection reset")

func (r *vRecv) recoverTransmission(p sts.Payload) (int, error) {
	n := 0
	for _, part := range p.GetParts() {
		beg, ln := part.GetSlice()
		end := beg + ln
		if r.hash[part.GetName()] != part.GetFileHash() || !r.has(part.GetName(), beg, end) {
			break
		}
		n++
	}
	return n, nil
}

// partials: what the receiver reports at sender start-up (files it holds in part)
func (r *vRecv) partials() ([]*sts.Partial, error) {
	var out []*sts.Partial
	for name, rs := range r.ranges {
		if r.complete(name) || len(rs) == 0 {
			continue
		}
		// (the receiver's companion file keeps the announced predecessor)
		p := &sts.Partial{Name: name, Prev: r.prev[name], Hash: r.hash[name], Size: r.size[name], Source: "src", Time: marshal.NanoTime{Time: r.v.Now().Add(-time.Hour)}}
		for _, x := range rs {
			p.Parts = append(p.Parts, &sts.ByteRange{Beg: x[0], End: x[1]})
		}
		out = append(out, p)
	}
	return out, nil
}

type vPolledFile struct {
	sts.Pollable
	code int
}

func (p *vPolledFile) NotFound() bool { return p.code == sts.ConfirmNone }
func (p *vPolledFile) Failed() bool   { return p.code == sts.ConfirmFailed }
func (p *vPolledFile) Received() bool { return p.code == sts.ConfirmPassed }
func (p *vPolledFile) Waiting() bool  { return p.code == sts.ConfirmWaiting }

func (r *vRecv) validate(polls []sts.Pollable) ([]sts.Polled, error) {
	var out []sts.Polled
	for _, p := range polls {
		code := sts.ConfirmNone
		if r.complete(p.GetName()) && r.hash[p.GetName()] == p.GetHash() {
			code = sts.ConfirmPassed
			if r.confirmed == nil {
				r.confirmed = map[string]bool{}
			}
			r.confirmed[p.GetName()] = true
		}
		out = append(out, &vPolledFile{Pollable: p, code: code})
	}
	return out, nil
}

// One source file (symbolic size up to a few chunks, so one or two payloads).
// Run 1: the real Broker.Start in one-shot mode; the sender process is killed
// immediately before its k-th file-system call (every k: the cache writes), or
// runs to the end. Run 2: a new process loads the cache and runs Start again.
// Asserted: the receiver ends up holding the whole file, no byte the receiver
// already held was transmitted again (re-sends only what is missing), the
// source file is removed only after the receiver confirmed that version, and
// the cache marks it done only then.
func H_C07_Pipeline(v *verifrt.T) {
	root := v.TempRoot()
	cdir := filepath.Join(root, "cache")
	os.MkdirAll(cdir, 0o755)
	// a file of one chunk (concrete sizes: its "completed" time is computed in
	// floating point from the size) or of several chunks (symbolic size)
	var size int64
	if v.Choose("size-class", 2) == 0 {
		size = int64(1 + v.Choose("small-size", 4))
	} else if v.Param("SYMSIZE", 1) == 1 {
		size = v.Int64("size")
		v.Assume(size >= 5)
		v.Assume(size <= int64(v.Param("MAXSIZE", 10)))
	} else {
		// (two files: a whole small file shares a payload with the tail of
		// this one, and its completion time is computed in floating point
		// from the payload size — kept concrete)
		size = int64(5 + v.Choose("size", v.Param("MAXSIZE", 10)-4))
	}
	v.Version("v1", size)
	mtime := v.Now().Add(-2 * time.Hour)
	src := &vSource{v: v, files: map[string]*vSrcFile{"g/a": {name: "g/a", size: size, time: mtime, tag: "v1"}}, order: []string{"g/a"}}
	two := v.Param("FILES", 1) == 2
	if two {
		// a second, newer file of the same group (in-order delivery: it must be
		// announced with the first one as its predecessor, also after a restart)
		v.Version("v2", 3)
		src.files["g/b"] = &vSrcFile{name: "g/b", size: 3, time: mtime.Add(time.Minute), tag: "v2"}
		src.order = []string{"g/b", "g/a"} // the scan finds them in no particular order
	}
	recv := &vRecv{v: v, size: map[string]int64{}, hash: map[string]string{}, ranges: map[string][][2]int64{}, faults: v.Param("FAULTS", 0)}
	del := v.Bool("delete-after-confirmation")
	run := func() {
		c, err := cache.NewJSON(cdir, "/out", "k")
		if err != nil {
			v.Assert(false, "C07 the cache file is loadable after a crash at any point (written under another name, then renamed)")
			return
		}
		tagger := func(string) string { return "" }
		broker := &Broker{Conf: &Conf{
			Name: "src", Store: src, Cache: c,
			Queue:        queue.NewTagged([]*queue.Tag{{Name: "", Order: sts.OrderFIFO, ChunkSize: 4}}, tagger, func(n string) string { return "g" }),
			Recoverer:    recv.partials,
			BuildPayload: payload.NewBin,
			Transmitter:  recv.transmit,
			TxRecoverer:  recv.recoverTransmission,
			Validator:    recv.validate,
			Logger:       &vSentLog{},
			Tagger:       tagger,
			CacheAge:     time.Hour, ScanDelay: 0, Threads: v.Param("THREADS", 1), PayloadSize: 8,
			StatInterval: time.Hour, PollDelay: time.Second, PollInterval: time.Second, PollAttempts: 3, PollMaxCount: 10,
			Tags: []*FileTag{{Name: "", InOrder: true, Delete: del}}, ErrorBackoff: 1,
		}}
		stop, done := make(chan bool, 1), make(chan bool, 1)
		stop <- true // one-shot: finish the work, then stop
		go broker.Start(stop, done)
		// bounded liveness: the one-shot run ends before 200 timers have fired
		// (poll delays, back-off sleeps, statistics tickers)
		for r := 0; r < 200 && len(done) == 0; r++ {
			v.QuiesceTimers(1)
		}
		if len(done) == 0 {
			v.Assert(false, "C07 the sender finishes its work: every file it transmitted is confirmed, marked done and the run ends")
		}
	}
	k := v.Choose("crash-before-fs-call", v.Param("MAXK", 12)+1) // 0: no crash
	crashed := false
	if k > 0 {
		crashed = v.RunUntilCrash(k, run)
	} else {
		run()
	}
	confirmedEarly := recv.complete("g/a")
	if crashed {
		v.Reach("crashed")
		v.Assert(len(src.removed) == 0 || confirmedEarly, "C02 the source file is removed only after the receiver holds and confirmed that version")
	} else {
		v.Reach("no-crash")
		v.KillProcess()
	}
	sentBefore := recv.sent
	// the sender starts again
	run()
	v.KillProcess()
	v.Assert(recv.complete("g/a"), "C07 after a crash at any point and a restart the receiver ends up holding the whole file")
	v.Assert(recv.resent == 0, "C07 the sender re-sends only what the receiver does not hold")
	if !crashed {
		v.Assert(recv.sent == sentBefore, "C07 a restart after a complete run transmits nothing")
	}
	if two {
		v.Assert(recv.complete("g/b"), "C07 after a crash at any point and a restart the receiver holds every file")
		v.Assert(recv.sent == size+3, "C07 every byte of every file is transmitted exactly once")
		v.Assert(!recv.prevBad, "C04 the newer file of a group is announced with the older one as its predecessor (or with none once the older one is confirmed as delivered), the oldest with none — also when the sender restarted in between")
		v.Reach("two-files")
	} else {
		v.Assert(recv.sent == size, "C07 every byte of the file is transmitted exactly once")
	}
	if len(src.removed) > 0 {
		v.Assert(del, "C02 a source file is removed only if its tag says so")
		v.Reach("removed")
	}
	c, err := cache.NewJSON(cdir, "/out", "k")
	v.Assert(err == nil, "C07 the cache file is loadable")
	if err == nil {
		if f := c.Get("g/a"); f != nil && f.IsDone() {
			v.Assert(recv.complete("g/a"), "C02 the cache marks a file done only after the receiver confirmed it")
			v.Reach("done-in-cache")
		}
	}
}
