//go:build verif

package client

// C08 — the sender never counts a part as sent unless the receiver recorded it.

import (
	"errors"
	"sync"
	"time"

	"github.com/arm-doe/sts"
	"github.com/arm-doe/sts/internal/verifrt"
	"github.com/arm-doe/sts/payload"
)

func init() {
	verifrt.Register("H_C08_SendError", H_C08_SendError)
	verifrt.Register("H_C08_SendLoop", H_C08_SendLoop)
	verifrt.Register("H_C08_Track", H_C08_Track)
}

type vCached struct{ vSendable }

func (f *vCached) IsDone() bool { return false }

type vCache struct{ gone map[string]bool }

func (c *vCache) Iterate(func(sts.Cached) bool) {}
func (c *vCache) Get(name string) sts.Cached {
	if c.gone[name] {
		return nil
	}
	return &vCached{vSendable{name: name, size: 10}}
}
func (c *vCache) Add(sts.Hashed)                   {}
func (c *vCache) Done(string, func(sts.Cached))    {}
func (c *vCache) Reset(string)                     {}
func (c *vCache) Remove(string)                    {}
func (c *vCache) Persist() error                   { return nil }

type vSyncStore struct {
	vStore
	changed map[string]bool
}

func (s vSyncStore) Sync(f sts.File) (sts.File, error) {
	if s.changed[f.GetName()] {
		return f, nil
	}
	return nil, nil
}

// c08payload builds a real payload.Bin of k parts (one 10-byte chunk of k
// different files each).
func c08payload(k int) (sts.Payload, []sts.Binned) {
	bin := payload.NewBin(1<<30, nil, nil)
	for i := 0; i < k; i++ {
		name := string(rune('a' + i))
		bin.Add(&binnable{Sendable: &vSendable{name: name, size: 10, offset: 0, length: 10}})
	}
	return bin, bin.GetParts()
}

// O1: handleSendError(p, n0) with any count n0 from the failed answer and any
// sequence of recovery answers: forwards exactly the leading n parts the
// receiver reported (n0 if the answer carried a count, else the recovery
// answer) and returns exactly the rest, in order.
func H_C08_SendError(v *verifrt.T) {
	k := 1 + v.Choose("nparts", v.Param("PARTS", 4))
	p, parts := c08payload(k)
	n0 := v.Int("n0")
	v.Assume(n0 >= 0)
	v.Assume(n0 <= k)
	fails := v.Choose("recovery-failures", v.Param("FAILS", 2)+1)
	nr := v.Int("nrec")
	v.Assume(nr >= 0)
	v.Assume(nr <= k)
	asked := 0
	broker := &Broker{
		Conf: &Conf{Name: "v", TxRecoverer: func(sts.Payload) (int, error) {
			asked++
			if asked <= fails {
				return 0, errors.New("recovery request failed")
			}
			return nr, nil
		}},
		chTransmitted: make(chan sts.Payload, 4),
		chStats:       make(chan sts.Payload, 8),
	}
	rest := broker.handleSendError(p, n0)
	// what the receiver reported as recorded
	n := n0
	if n0 == 0 {
		n = nr
		v.Assert(asked == fails+1, "C08.O1 the sender asks until it gets an answer when the failed request carried no count")
	} else {
		v.Assert(asked == 0, "C08.O1 no recovery request when the answer carried the count")
	}
	var fwd []sts.Binned
	for len(broker.chTransmitted) > 0 {
		fwd = append(fwd, (<-broker.chTransmitted).GetParts()...)
	}
	var restParts []sts.Binned
	if rest != nil {
		restParts = rest.GetParts()
	}
	v.Assert(len(fwd) == n, "C08.O1 exactly the parts the receiver recorded are counted as transmitted")
	v.Assert(len(restParts) == k-n, "C08.O1 exactly the remainder is sent again")
	if len(fwd) == n && len(restParts) == k-n {
		for i := 0; i < k; i++ {
			if i < n {
				v.Assert(fwd[i] == parts[i], "C08.O1 forwarded parts are the leading parts in order")
			} else {
				v.Assert(restParts[i-n] == parts[i], "C08.O1 remaining parts keep their order")
			}
		}
	}
	if n > 0 && n < k {
		v.Reach("split")
	}
	if n == 0 {
		v.Reach("nothing-recorded")
	}
	if n == k {
		v.Reach("all-recorded")
	}
}

// O3: the real startSend goroutine, one payload, the transmitter / recovery
// request failing in every way: a part is forwarded (counted as sent) only if
// the fake receiver recorded it, every part is forwarded exactly once, none is
// abandoned.
func H_C08_SendLoop(v *verifrt.T) {
	k := 1 + v.Choose("nparts", v.Param("PARTS", 3))
	maxf := v.Param("FAILS", 2)
	p, parts := c08payload(k)
	recorded := map[sts.Binned]bool{}
	failures := 0
	index := func(pl sts.Payload, m int) {
		for i, part := range pl.GetParts() {
			if i < m {
				recorded[part] = true
			}
		}
	}
	leading := func(pl sts.Payload) int {
		n := 0
		for _, part := range pl.GetParts() {
			if !recorded[part] {
				break
			}
			n++
		}
		return n
	}
	broker := &Broker{
		Conf: &Conf{Name: "v",
			Cache: &vCache{},
			Store: vSyncStore{},
			Transmitter: func(pl sts.Payload) (int, error) {
				np := len(pl.GetParts())
				for _, part := range pl.GetParts() {
					v.Assert(!recorded[part], "C08.O3 only the remainder is sent again: a part the receiver recorded is not transmitted a second time")
				}
				if failures >= maxf {
					index(pl, np)
					return np, nil
				}
				// the receiver records a leading subset before the request ends
				m := v.Int("recorded-this-time")
				v.Assume(m >= 0)
				v.Assume(m <= np)
				index(pl, m)
				switch v.Choose("outcome", 3) {
				case 0:
					if leading(pl) == np {
						return np, nil
					}
					failures++
					return leading(pl), errors.New("206 partial content")
				case 1:
					failures++
					return leading(pl), errors.New("206 partial content")
				default:
					failures++
					return 0, errors.New("connection cut / answer lost")
				}
			},
			TxRecoverer: func(pl sts.Payload) (int, error) {
				if failures < maxf && v.Choose("recovery-fails", 2) == 1 {
					failures++
					return 0, errors.New("recovery request failed")
				}
				return leading(pl), nil
			},
		},
		chTransmit:    make(chan sts.Payload, 1),
		chTransmitted: make(chan sts.Payload, 8),
		chStats:       make(chan sts.Payload, 32),
	}
	broker.chTransmit <- p
	close(broker.chTransmit)
	var wg sync.WaitGroup
	wg.Add(1)
	go broker.startSend(&wg)
	wg.Wait()
	count := map[sts.Binned]int{}
	for len(broker.chTransmitted) > 0 {
		for _, part := range (<-broker.chTransmitted).GetParts() {
			v.Assert(recorded[part], "C08.O3 a part counted as transmitted was recorded by the receiver")
			count[part]++
		}
	}
	for _, part := range parts {
		v.Assert(count[part] == 1, "C08.O3 every part is forwarded exactly once, none skipped or abandoned")
	}
	v.Reach("sender-finished")
}

type vHashSendable struct {
	vSendable
	hash string
}

func (f *vHashSendable) GetHash() string { return f.hash }

type vSendLogger struct {
	sent   []string
	hashes []string
}

func (l *vSendLogger) Sent(f sts.Sent) {
	l.sent = append(l.sent, f.GetName())
	l.hashes = append(l.hashes, f.GetHash())
}
func (l *vSendLogger) WasSent(string, string, time.Time, time.Time) bool { return false }

// O4: the real startTrack goroutine: a file is written to the sent log and
// handed to the validator only when its acknowledged bytes reach its send
// size, and only once.
func H_C08_Track(v *verifrt.T) {
	np := 1 + v.Choose("npayloads", v.Param("PAYLOADS", 3))
	size := v.Int64("size")
	v.Assume(size >= 1)
	v.Assume(size < 1<<40)
	logger := &vSendLogger{}
	broker := &Broker{
		Conf:          &Conf{Name: "v", Logger: logger},
		chTransmitted: make(chan sts.Payload, np),
		chValidate:    make(chan sts.Pollable, 4),
	}
	acked := int64(0)
	// the file may be replaced by a new version (other hash) while it is being
	// sent: parts acknowledged for the old version must not count for the new
	switchAt := -1
	if v.Param("VERSIONS", 2) == 2 {
		switchAt = v.Choose("new-version-from-payload", np+1) - 1
	}
	hash := "h-old"
	ackedOld := int64(0)
	for i := 0; i < np; i++ {
		if i == switchAt {
			hash = "h-new"
			ackedOld = acked
			acked = 0
		}
		bin := payload.NewBin(1<<50, nil, nil)
		off, ln := v.Int64("off"), v.Int64("len")
		v.Assume(off >= 0)
		v.Assume(ln >= 1)
		v.Assume(off+ln <= size)
		v.Assume(off < 1<<40)
		v.Assume(ln < 1<<40)
		bin.Add(&binnable{Sendable: &vHashSendable{vSendable{name: "f", size: size, offset: off, length: ln}, hash}})
		broker.chTransmitted <- bin
		acked += ln
	}
	close(broker.chTransmitted)
	var wg sync.WaitGroup
	wg.Add(1)
	go broker.startTrack(&wg)
	v.Quiesce()
	if switchAt < 0 {
		ackedOld, acked = acked, 0
	}
	nOld, nNew := 0, 0
	for _, h := range logger.hashes {
		if h == "h-old" {
			nOld++
		} else {
			nNew++
		}
	}
	if ackedOld < size {
		v.Assert(nOld == 0, "C08.O4 nothing is logged as sent before every byte of that version is acknowledged")
	} else {
		v.Assert(nOld >= 1, "C08.O4 a fully acknowledged file is written to the sent log")
	}
	if acked < size {
		v.Assert(nNew == 0, "C08.O4 bytes acknowledged for an older version do not count for the new one")
	} else {
		v.Assert(nNew >= 1, "C08.O4 a fully acknowledged new version is written to the sent log")
	}
	if nOld+nNew > 0 {
		v.Reach("logged")
	} else {
		v.Assert(len(broker.chValidate) == 0, "C08.O4 nothing is polled before every byte is acknowledged")
		v.Reach("not-yet")
	}
}
