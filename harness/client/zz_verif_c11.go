//go:build verif

package client

// C11 (sender side) — resumed files allocate exactly the missing ranges; the
// real startBin goroutine cuts chunks into payload parts that tile them.

import (
	"sync"
	"time"

	"github.com/alecthomas/units"
	"github.com/arm-doe/sts"
	"github.com/arm-doe/sts/internal/verifrt"
	"github.com/arm-doe/sts/payload"
)

func init() {
	verifrt.Register("H_C11_Resumed", H_C11_Resumed)
	verifrt.Register("H_C11_Pack", H_C11_Pack)
}

type vSendable struct {
	name   string
	size   int64
	offset int64
	length int64
	prev   string
}

func (f *vSendable) GetPath() string          { return "/out/" + f.name }
func (f *vSendable) GetName() string          { return f.name }
func (f *vSendable) GetSize() int64           { return f.size }
func (f *vSendable) GetTime() time.Time       { return time.Time{} }
func (f *vSendable) GetMeta() []byte          { return nil }
func (f *vSendable) GetHash() string          { return "h-" + f.name }
func (f *vSendable) GetPrev() string          { return f.prev }
func (f *vSendable) GetSlice() (int64, int64) { return f.offset, f.length }
func (f *vSendable) GetSendSize() int64       { return f.size }

type vStore struct{}

func (vStore) Scan(func(sts.File) bool) ([]sts.File, time.Time, error) { return nil, time.Time{}, nil }
func (vStore) GetOpener() sts.Open                                      { return nil }
func (vStore) Remove(sts.File) error                                    { return nil }
func (vStore) Sync(f sts.File) (sts.File, error)                        { return f, nil }
func (vStore) IsNotExist(error) bool                                    { return false }
func (vStore) ShouldIgnore(sts.File) bool                               { return false }

// O3: recoverFile.Allocate driven to exhaustion over ≤ R ascending, disjoint,
// non-empty missing ranges: every byte of a missing range is emitted exactly
// once, no other byte is emitted, chunks are non-empty, ≤ chunk size and in
// ascending order; GetSendSize is the number of missing bytes.
func H_C11_Resumed(v *verifrt.T) {
	r := v.Param("R", 2)
	u := v.Param("U", 4)
	k := 1 + v.Choose("nranges", r)
	chunk := v.Int64("chunk")
	v.Assume(chunk >= 1)
	v.Assume(chunk < 1<<53)
	f := &recoverFile{}
	prevEnd := int64(0)
	total := int64(0)
	for i := 0; i < k; i++ {
		b, e := v.Int64("beg"), v.Int64("end")
		v.Assume(prevEnd <= b)
		v.Assume(b < e)
		v.Assume(e < 1<<53)
		f.left = append(f.left, &sts.ByteRange{Beg: b, End: e})
		prevEnd = e
		total += e - b
	}
	x := v.Int64("x")
	v.Assume(0 <= x)
	inLeft := false
	for _, p := range f.left {
		inLeft = verifrt.Or(inLeft, verifrt.And(p.Beg <= x, x < p.End))
	}
	v.Assert(f.GetSendSize() == total, "C11.O3 send size is the number of missing bytes")
	count := int64(0)
	sum := int64(0)
	last := int64(0)
	for i := 0; i < u; i++ {
		if f.IsAllocated() {
			break
		}
		off, ln := f.Allocate(chunk)
		v.Assert(ln >= 1, "C11.O3 chunk is not empty")
		v.Assert(ln <= chunk, "C11.O3 chunk not larger than the chunk size")
		v.Assert(off >= last, "C11.O3 chunks ascend")
		last = off + ln
		sum += ln
		count += verifrt.Ite64(verifrt.And(off <= x, x < off+ln), 1, 0)
	}
	v.Assume(f.IsAllocated()) // bound: ≤ U chunks
	v.Reach("exhausted")
	v.Assert(sum == total, "C11.O3 emitted bytes = missing bytes")
	v.Assert(count == verifrt.Ite64(inLeft, 1, 0), "C11.O3 a byte is emitted exactly once iff it is missing")
}

// O2: the real startBin goroutine fed with one or two chunks: the parts of the
// payloads it hands to the senders are non-empty, in order, and tile each
// chunk exactly; no payload is larger than capacity + 10% slack.
func H_C11_Pack(v *verifrt.T) {
	nchunks := 1 + v.Choose("nchunks", v.Param("CHUNKS", 2))
	maxp := v.Param("PAYLOADS", 4)
	capacity := v.Int64("capacity")
	v.Assume(capacity >= 1)
	v.Assume(capacity < 1<<50)
	fluff := int64(float64(capacity) * 0.1)
	broker := &Broker{
		Conf: &Conf{
			Name:         "v",
			Store:        vStore{},
			Tagger:       func(string) string { return "t" },
			BuildPayload: payload.NewBin,
			PayloadSize:  units.Base2Bytes(capacity),
		},
		tagMap:     map[string]*FileTag{},
		chQueued:   make(chan sts.Sendable, nchunks),
		chTransmit: make(chan sts.Payload),
	}
	var chunks []*vSendable
	for i := 0; i < nchunks; i++ {
		off, ln := v.Int64("off"), v.Int64("len")
		v.Assume(off >= 0)
		v.Assume(ln >= 1)
		v.Assume(off < 1<<52)
		v.Assume(ln < 1<<52) // file size off+ln < 2^53 (A7)
		c := &vSendable{name: string(rune('a' + i)), size: off + ln, offset: off, length: ln}
		chunks = append(chunks, c)
		broker.chQueued <- c
	}
	close(broker.chQueued)
	var wg sync.WaitGroup
	wg.Add(1)
	go broker.startBin(&wg)
	go func() {
		wg.Wait()
		close(broker.chTransmit)
	}()
	ci := 0
	pos := chunks[0].offset
	np := 0
	for p := range broker.chTransmit {
		np++
		v.Assume(np <= maxp) // bound: ≤ PAYLOADS payloads
		v.Assert(p.GetSize() <= capacity+fluff, "C11.O2 payload within capacity plus slack")
		sz := int64(0)
		for _, part := range p.GetParts() {
			b, n := part.GetSlice()
			v.AssertKF(ci < len(chunks), "C11.O2 no part beyond the chunks queued", "KF-C11-tiny-payload", capacity < 10)
			if ci >= len(chunks) {
				return
			}
			v.Assert(part.GetName() == chunks[ci].name, "C11.O2 parts follow the chunk order")
			v.AssertKF(b == pos, "C11.O2 part starts where the previous one ended", "KF-C11-tiny-payload", capacity < 10)
			v.Assert(n >= 1, "C11.O2 part is not empty")
			pos = b + n
			sz += n
			end := chunks[ci].offset + chunks[ci].length
			v.Assert(pos <= end, "C11.O2 part stays inside its chunk")
			if pos == end {
				ci++
				if ci < len(chunks) {
					pos = chunks[ci].offset
				}
			}
		}
		v.Assert(sz == p.GetSize(), "C11.O2 payload size is the sum of its parts")
	}
	v.Reach("drained")
	v.AssertKF(ci == len(chunks), "C11.O2 every chunk is packed completely", "KF-C11-tiny-payload", capacity < 10)
}
