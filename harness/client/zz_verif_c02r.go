//go:build verif

package client

// C02 — marking a file done and deleting it is one transaction of the cache:
// the scanner cannot slip a new version of the name into the cache between the
// two.

import (
	"os"
	"path/filepath"
	"time"

	"github.com/arm-doe/sts"
	"github.com/arm-doe/sts/cache"
	"github.com/arm-doe/sts/internal/verifrt"
)

func init() {
	verifrt.Register("H_C02_FinishRace", H_C02_FinishRace)
}

// The receiver confirmed version 1 of a file whose tag says "delete after
// delivery"; finish() marks it done and is about to compare the cached
// description with the file on disk. Exactly then the file is rewritten (other
// or same size, other time) and the scanner adds the new version to the cache,
// concurrently. The real cache.JSON must keep the scanner out until the
// transaction is over: the rewritten file is never deleted on the strength of
// the old version's confirmation, and the new version ends up in the cache as
// not done (it will be sent).
func H_C02_FinishRace(v *verifrt.T) {
	root := v.TempRoot()
	os.MkdirAll(filepath.Join(root, "cache"), 0o755)
	c, err := cache.NewJSON(filepath.Join(root, "cache"), "/out", "k")
	v.Assert(err == nil, "cache created")
	ft, _ := v.TimeAgo("file-age", 96*time.Hour)
	src := &vSource{v: v, files: map[string]*vSrcFile{"a": {name: "a", size: 5, time: ft, tag: "v1"}}, order: []string{"a"}}
	c.Add(&hashFile{File: src.files["a"], hash: "h1"})
	broker := &Broker{
		Conf:      &Conf{Name: "v", Cache: c, Store: src, Tagger: func(string) string { return "t" }},
		tagMap:    map[string]*FileTag{"t": {Name: "t", Delete: true}},
		cleanSome: true,
		chRetry:   make(chan sts.Polled, 1),
	}
	dsize := v.Int64("size-change")
	dt := v.Duration("mtime-change", time.Second, time.Hour)
	v.Assume(dsize >= -4)
	v.Assume(dsize <= 4096)
	added := make(chan struct{}, 1)
	addedInside := false
	first := true
	src.onSync = func() {
		if !first {
			return
		}
		first = false
		v.Reach("rewritten-inside-the-transaction")
		nf := &vSrcFile{name: "a", size: 5 + dsize, time: ft.Add(dt), tag: "v2"}
		src.files["a"] = nf
		go func() {
			cp := *nf
			c.Add(&hashFile{File: &cp, hash: "h2"})
			added <- struct{}{}
		}()
		// give the scanner's goroutine every chance to get in
		select {
		case <-added:
			addedInside = true
			added <- struct{}{}
		case <-time.After(200 * time.Millisecond):
		}
	}
	broker.finish(&vPolled{name: "a", code: sts.ConfirmPassed})
	<-added
	v.Assert(!addedInside, "C02 the cache keeps other writers out while a confirmed file is marked done and deleted (one transaction)")
	v.Assert(len(src.removed) == 0, "C02 a file rewritten while the old version's confirmation is processed is not deleted (no identical validated copy exists)")
	e := c.Get("a")
	v.Assert(e != nil && !e.IsDone() && e.GetHash() == "h2", "C02/C17 the new version is in the cache as not done: it will be sent")
	v.Reach("finished")
}
