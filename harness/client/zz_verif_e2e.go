//go:build verif

package client

// End to end: the whole real sender pipeline (Broker.Start) against the real
// receiver (stage.Stage with the real receive log log.FileIO), both over the
// file-system model, with a power failure (both processes die) before any
// file-system call of either side, and a restart of both.

import (
	"errors"
	"io"
	"os"
	"path/filepath"
	"strings"
	"time"

	"github.com/arm-doe/sts"
	"github.com/arm-doe/sts/cache"
	"github.com/arm-doe/sts/internal/verifrt"
	"github.com/arm-doe/sts/log"
	"github.com/arm-doe/sts/marshal"
	"github.com/arm-doe/sts/payload"
	"github.com/arm-doe/sts/queue"
	"github.com/arm-doe/sts/stage"
)

func init() {
	verifrt.Register("H_E2E_PowerFailure", H_E2E_PowerFailure)
	verifrt.Register("H_E2E_NameReused", H_E2E_NameReused)
}

// vMetaR is a part descriptor as the request decoder hands it to the stage
// (receiver side: GetSlice is (begin, end)).
type vMetaR struct {
	name, prev, hash string
	size, beg, end   int64
	t                time.Time
}

func (b *vMetaR) GetName() string          { return b.name }
func (b *vMetaR) GetRenamed() string       { return "" }
func (b *vMetaR) GetPrev() string          { return b.prev }
func (b *vMetaR) GetFileTime() time.Time   { return b.t }
func (b *vMetaR) GetFileHash() string      { return b.hash }
func (b *vMetaR) GetFileSize() int64       { return b.size }
func (b *vMetaR) GetSendSize() int64       { return b.size }
func (b *vMetaR) GetSlice() (int64, int64) { return b.beg, b.end }

// vWire connects the sender's four requests to the real receiver the way the
// http client / server pair does (descriptors re-built on the receiving side,
// part bytes read from the source version).
type vWire struct {
	v    *verifrt.T
	s    *stage.Stage
	tags map[string]string // file name -> content version of the source file
	sent int64
	// corruptNext: the bytes of the next transmitted part are damaged in transit
	// (same length, other content)
	corruptNext bool
	// faults: requests that may still fail (before the receiver saw anything,
	// or after it processed everything with the answer lost)
	faults int
}

func (w *vWire) metas(p sts.Payload) []sts.Binned {
	var out []sts.Binned
	for _, part := range p.GetParts() {
		off, n := part.GetSlice() // sender side: (offset, length)
		out = append(out, &vMetaR{name: part.GetName(), prev: part.GetPrev(), hash: part.GetFileHash(),
			size: part.GetFileSize(), beg: off, end: off + n, t: part.GetFileTime()})
	}
	return out
}

func (w *vWire) transmit(p sts.Payload) (int, error) {
	fault := 0
	if w.faults > 0 {
		if fault = w.v.Choose("request-fails", 3); fault != 0 {
			w.faults--
		}
	}
	if fault == 1 {
		return 0, errWire
	}
	ms := w.metas(p)
	w.s.Prepare(ms)
	for k, m := range ms {
		b, e := m.GetSlice()
		tag := w.tags[m.GetName()]
		if w.corruptNext {
			tag, w.corruptNext = "junk", false
		}
		err := w.s.Receive(&sts.Partial{Name: m.GetName(), Prev: m.GetPrev(), Size: m.GetFileSize(), Hash: m.GetFileHash(),
			Time: marshal.NanoTime{Time: m.GetFileTime()}, Source: "src", Parts: []*sts.ByteRange{{Beg: b, End: e}}},
			w.v.Reader(tag, b, e-b))
		if err != nil {
			return k, err
		}
		w.sent += e - b
	}
	if fault == 2 {
		return 0, errWire // processed, but the answer never arrives
	}
	return len(ms), nil
}

var errWire = errors.New("connection reset")

func (w *vWire) recoverTransmission(p sts.Payload) (int, error) { return w.s.Received(w.metas(p)), nil }

func (w *vWire) partials() ([]*sts.Partial, error) {
	b, err := w.s.Scan("1")
	if err != nil {
		return nil, err
	}
	return stage.ReadCompanions(&vBytes{b: b})
}

type vBytes struct{ b []byte }

func (r *vBytes) Read(p []byte) (int, error) {
	if len(r.b) == 0 {
		return 0, io.EOF
	}
	n := copy(p, r.b)
	r.b = r.b[n:]
	return n, nil
}

func (w *vWire) validate(polls []sts.Pollable) ([]sts.Polled, error) {
	var out []sts.Polled
	for _, p := range polls {
		out = append(out, &vPolledFile{Pollable: p, code: w.s.GetFileStatus(p.GetName(), p.GetStarted())})
	}
	return out, nil
}

// One source file. Run 1: receiver and sender start; the machine loses power
// immediately before the k-th file-system call of either side (every k), or
// the run completes. Then both restart (the receiver recovers its staging
// area, the sender its cache) and run again. A consumer takes delivered files
// out of the final directory after each run. Asserted: the file is delivered
// exactly once, byte-identical, logged once (twice only by a crash between
// logging and moving), confirmed; the sender removes its source file and marks
// it done only then; a completed transfer is not transmitted again.
func H_E2E_PowerFailure(v *verifrt.T) {
	v.FixClock()
	root := v.TempRoot()
	for _, d := range []string{"cache", "stage", "final", "rlog"} {
		os.MkdirAll(filepath.Join(root, d), 0o755)
	}
	var size int64
	if v.Choose("size-class", 2) == 0 {
		size = int64(1 + v.Choose("small-size", 4))
	} else {
		size = int64(5 + v.Choose("size", v.Param("MAXSIZE", 10)-4))
	}
	v.Version("v1", size)
	mtime := v.Now().Add(-2 * time.Hour)
	src := &vSource{v: v, files: map[string]*vSrcFile{"g/a": {name: "g/a", size: size, time: mtime, tag: "v1"}}, order: []string{"g/a"}}
	wire := &vWire{v: v, tags: map[string]string{"g/a": "v1"}}
	if v.Param("CORRUPT", 0) == 1 && v.Choose("first-part-damaged-in-transit", 2) == 1 {
		v.Version("junk", size)
		wire.corruptNext = true
		v.Reach("damaged-in-transit")
	}
	wire.faults = v.Param("FAULTS", 0)
	continuous := v.Param("CONTINUOUS", 0) == 1
	two := v.Param("FILES", 1) == 2
	if two {
		// a second, newer file of the same group: in-order delivery end to end
		v.Version("v2", 3)
		src.files["g/b"] = &vSrcFile{name: "g/b", size: 3, time: mtime.Add(time.Minute), tag: "v2"}
		src.order = []string{"g/b", "g/a"}
		wire.tags["g/b"] = "v2"
	}
	del := v.Bool("delete-after-confirmation")
	finalDir := filepath.Join(root, "final")
	deliveries, deliveriesB := 0, 0
	consume := func() {
		for _, f := range v.Files(finalDir) {
			if strings.HasSuffix(f, ".lck") {
				continue
			}
			if two && f == "g/b" {
				v.Assert(v.FileIs(filepath.Join(finalDir, f), "v2"), "C01 whatever reaches the final directory is the announced version, byte for byte")
				v.Assert(deliveries == 1 || v.Exists(filepath.Join(finalDir, "g/a")), "C04 the newer file of a group is never delivered before the older one")
				deliveriesB++
				os.Remove(filepath.Join(finalDir, f))
				continue
			}
			v.Assert(f == "g/a" && v.FileIs(filepath.Join(finalDir, f), "v1"), "C01 whatever reaches the final directory is the announced version, byte for byte")
			deliveries++
		}
		os.Remove(filepath.Join(finalDir, "g/a"))
	}
	var rlog *log.FileIO
	run := func() {
		rlog = log.NewFileIO(filepath.Join(root, "rlog"), nil, nil, true)
		wire.s = stage.New("src", filepath.Join(root, "stage"), finalDir, rlog, nil, nil)
		wire.s.Recover()
		c, err := cache.NewJSON(filepath.Join(root, "cache"), "/out", "k")
		if err != nil {
			v.Assert(false, "C07 the cache file is loadable after a crash at any point")
			return
		}
		tagger := func(string) string { return "" }
		broker := &Broker{Conf: &Conf{
			Name: "src", Store: src, Cache: c,
			Queue:        queue.NewTagged([]*queue.Tag{{Name: "", Order: sts.OrderFIFO, ChunkSize: 4}}, tagger, func(n string) string { return "g" }),
			Recoverer:    wire.partials,
			BuildPayload: payload.NewBin,
			Transmitter:  wire.transmit,
			TxRecoverer:  wire.recoverTransmission,
			Validator:    wire.validate,
			Logger:       &vSentLog{},
			Tagger:       tagger,
			CacheAge:     time.Hour, ScanDelay: 0, Threads: 1, PayloadSize: 8,
			StatInterval: time.Hour, PollDelay: time.Second, PollInterval: time.Second, PollAttempts: 3, PollMaxCount: 10,
			Tags: []*FileTag{{Name: "", InOrder: true, Delete: del}}, ErrorBackoff: 1,
		}}
		stop, done := make(chan bool, 1), make(chan bool, 1)
		if continuous {
			// a continuous sender (scans every 30 s): it is asked to stop,
			// gracefully, once the receiver has delivered what there is — or
			// after 300 timer firings at the latest
			broker.Conf.ScanDelay = 30 * time.Second
			go broker.Start(stop, done)
			for r := 0; r < 300; r++ {
				v.QuiesceTimers(1)
				if v.Exists(filepath.Join(finalDir, "g/a")) && (!two || v.Exists(filepath.Join(finalDir, "g/b"))) {
					break
				}
			}
			v.QuiesceTimers(3) // let the confirmation arrive
			stop <- true
		} else {
			stop <- true // one-shot
			go broker.Start(stop, done)
		}
		// bounded liveness: the one-shot run ends before 200 timers have fired
		for r := 0; r < 200 && len(done) == 0; r++ {
			v.QuiesceTimers(1)
		}
		if len(done) == 0 {
			v.Assert(false, "C07 the sender finishes its work: every file it transmitted is confirmed, marked done and the run ends")
		}
		v.Quiesce()
	}
	m0 := v.FSMutations()
	k := v.Choose("power-failure-before-fs-call", v.Param("MAXK", 40)+1) // 0: none
	crashed := false
	if k > 0 {
		crashed = v.RunUntilCrash(k, run)
	} else {
		run()
	}
	if crashed {
		v.Reach("power-failure")
	} else {
		v.Reach("no-failure")
		// unwinding check: every file-system call of a complete run was a crash point
		v.Assert(k > 0 || !v.Symbolic() || v.Param("MAXK", 40) == 0 || v.FSMutations()-m0 <= v.Param("MAXK", 40), "bound: MAXK covers every file-system call of a complete run")
		v.KillProcess()
	}
	consume()
	deliveredInRun1 := deliveries == 1
	sentBefore := wire.sent
	v.Assert(len(src.removed) == 0 || deliveries == 1, "C02 the source file is removed only after the receiver delivered and confirmed that version")
	// both sides start again — at once, or after three days (the delivery is
	// then known to the receiver only from a day file of its log that the
	// restart does not reload)
	if v.Choose("down-for-days", 2) == 1 {
		v.Advance(72 * time.Hour)
		v.Reach("long-outage")
	}
	run()
	v.KillProcess()
	consume()
	if v.Param("CORRUPT", 0) == 1 && deliveries == 0 {
		// a one-shot run that ends with a failed validation leaves the
		// retransmission to the next run (a continuous sender retries at once)
		run()
		v.KillProcess()
		consume()
		v.Reach("retransmitted-in-a-later-run")
	}
	v.Assert(deliveries == 1, "C05/C06 the file is delivered exactly once, whatever the point of the power failure")
	if two {
		v.Assert(deliveriesB == 1, "C05/C06 every file is delivered exactly once, whatever the point of the power failure")
		// order of the records in the receive log: the older file first
		var seq []string
		rlog.Parse(func(name, renamed, hash string, sz int64, t time.Time) bool {
			seq = append(seq, name)
			return false
		}, v.Now().Add(-96*time.Hour), v.Now().Add(time.Hour))
		seenA := false
		for _, n := range seq {
			if n == "g/a" {
				seenA = true
			}
			if n == "g/b" {
				v.Assert(seenA, "C04 the newer file of a group is never logged as received before the older one")
			}
		}
		v.Reach("two-files")
	}
	if !crashed && deliveredInRun1 {
		v.Assert(wire.sent == sentBefore, "C07 a restart after a completed transfer transmits nothing")
	}
	v.Assert(wire.s.GetFileStatus("g/a", mtime) == sts.ConfirmPassed, "C06 the delivered file is confirmed after the restart")
	n := 0
	rlog.Parse(func(name, renamed, hash string, sz int64, t time.Time) bool {
		if name == "g/a" {
			n++
		}
		return false
	}, v.Now().Add(-96*time.Hour), v.Now().Add(time.Hour))
	v.Assert(n >= 1 && n <= 2, "C05 the delivery is logged once (twice only by a failure between logging and moving)")
	if len(src.removed) > 0 {
		v.Assert(del, "C02 a source file is removed only if its tag says so")
		v.Reach("removed")
	}
	// C03: after the last fault and a failure-free run nothing is stuck anywhere
	for _, f := range v.Files(filepath.Join(root, "stage")) {
		v.Assert(f == "", "C03 nothing is left in the staging area: "+f)
	}
	if c, err := cache.NewJSON(filepath.Join(root, "cache"), "/out", "k"); err == nil {
		f := c.Get("g/a")
		v.Assert(f == nil || f.IsDone(), "C03 every file is confirmed and marked done (or deleted) at the source")
		if f != nil && f.IsDone() {
			v.Reach("done-in-cache")
		}
		if two {
			fb := c.Get("g/b")
			v.Assert(fb == nil || fb.IsDone(), "C03 every file is confirmed and marked done (or deleted) at the source")
		}
	} else {
		v.Assert(false, "C07 the cache file is loadable")
	}
}


// A name that is used again for new content. Version 1 of g/a is sent,
// delivered, confirmed and taken away by the consumer. The source file is then
// rewritten (version 2: other size, later time); the next sender run loses
// power immediately before the k-th file-system call of either side (every k);
// both restart. Asserted: version 2 reaches the final directory exactly once,
// byte-identical, and its source file is removed (and marked done) only after
// that — never on the strength of what the receiver knows about version 1.
func H_E2E_NameReused(v *verifrt.T) {
	v.FixClock()
	root := v.TempRoot()
	for _, d := range []string{"cache", "stage", "final", "rlog"} {
		os.MkdirAll(filepath.Join(root, d), 0o755)
	}
	size1 := int64(1 + v.Choose("size-v1", 3))
	size2 := int64(1 + v.Choose("size-v2", 3))
	v.Version("v1", size1)
	h2 := v.Version("v2", size2)
	mtime := v.Now().Add(-2 * time.Hour)
	src := &vSource{v: v, files: map[string]*vSrcFile{"g/a": {name: "g/a", size: size1, time: mtime, tag: "v1"}}, order: []string{"g/a"}}
	wire := &vWire{v: v, tags: map[string]string{"g/a": "v1"}}
	del := v.Bool("delete-after-confirmation")
	finalDir := filepath.Join(root, "final")
	run := func() {
		rlog := log.NewFileIO(filepath.Join(root, "rlog"), nil, nil, true)
		wire.s = stage.New("src", filepath.Join(root, "stage"), finalDir, rlog, nil, nil)
		wire.s.Recover()
		c, err := cache.NewJSON(filepath.Join(root, "cache"), "/out", "k")
		if err != nil {
			v.Assert(false, "C07 the cache file is loadable after a crash at any point")
			return
		}
		tagger := func(string) string { return "" }
		broker := &Broker{Conf: &Conf{
			Name: "src", Store: src, Cache: c,
			Queue:        queue.NewTagged([]*queue.Tag{{Name: "", Order: sts.OrderFIFO, ChunkSize: 4}}, tagger, func(n string) string { return "g" }),
			Recoverer:    wire.partials,
			BuildPayload: payload.NewBin,
			Transmitter:  wire.transmit,
			TxRecoverer:  wire.recoverTransmission,
			Validator:    wire.validate,
			Logger:       &vSentLog{},
			Tagger:       tagger,
			CacheAge:     time.Hour, ScanDelay: 0, Threads: 1, PayloadSize: 8,
			StatInterval: time.Hour, PollDelay: time.Second, PollInterval: time.Second, PollAttempts: 3, PollMaxCount: 10,
			Tags: []*FileTag{{Name: "", InOrder: true, Delete: del}}, ErrorBackoff: 1,
		}}
		stop, done := make(chan bool, 1), make(chan bool, 1)
		stop <- true // one-shot
		go broker.Start(stop, done)
		for r := 0; r < 200 && len(done) == 0; r++ {
			v.QuiesceTimers(1)
		}
		if len(done) == 0 {
			v.Assert(false, "C07 the sender finishes its work")
		}
		v.Quiesce()
	}
	// version 1: an undisturbed transfer
	run()
	v.KillProcess()
	final := filepath.Join(finalDir, "g/a")
	v.Assert(v.FileIs(final, "v1"), "set-up: version 1 delivered")
	os.Remove(final)
	// the name is used again (a file deleted after confirmation is written anew;
	// a kept file is rewritten in place)
	src.files["g/a"] = &vSrcFile{name: "g/a", size: size2, time: mtime.Add(time.Hour), tag: "v2"}
	src.removed = nil
	wire.tags["g/a"] = "v2"
	sent1 := wire.sent
	k := v.Choose("power-failure-before-fs-call", v.Param("MAXK", 40)+1) // 0: none
	crashed := false
	if k > 0 {
		crashed = v.RunUntilCrash(k, run)
	} else {
		run()
	}
	if crashed {
		v.Reach("power-failure")
	} else {
		v.Reach("no-failure")
		v.KillProcess()
	}
	// what the sender knew when the lights went out
	nothingSentYet := wire.sent == sent1
	hashedV2 := false
	if c, err := cache.NewJSON(filepath.Join(root, "cache"), "/out", "k"); err == nil {
		if f := c.Get("g/a"); f != nil && f.GetHash() == h2 {
			hashedV2 = true
		}
	}
	// known finding: the status poll names a file by name and time only, so a
	// sender that restarts with version 2 hashed in its cache but not a byte
	// of it sent is told "passed" for version 1
	kf := crashed && nothingSentYet && hashedV2
	deliveries := 0
	consume := func() {
		if v.Exists(final) {
			v.AssertKF(v.FileIs(final, "v2"), "C01 whatever reaches the final directory is the announced version, byte for byte", "KF-C02-poll-by-name", kf)
			deliveries++
			os.Remove(final)
		}
	}
	consume()
	v.AssertKF(len(src.removed) == 0 || deliveries == 1, "C02 the source file is removed only after the receiver delivered and confirmed THAT version", "KF-C02-poll-by-name", kf)
	run()
	v.KillProcess()
	consume()
	v.AssertKF(len(src.removed) == 0 || deliveries == 1, "C02 the source file is removed only after the receiver delivered and confirmed THAT version", "KF-C02-poll-by-name", kf)
	v.AssertKF(deliveries == 1, "C02/C05 the new version of a name that is used again is delivered exactly once", "KF-C02-poll-by-name", kf)
	if kf {
		v.Reach("restart-before-first-byte")
	}
}
