//go:build verif

package client

// C02 — source files are released only after validated receipt.
// C07 — a sender restart loses nothing and re-sends only what is missing.
// C17 — each version is sent once, changed files again.

import (
	"errors"
	"os"
	"path/filepath"
	"sync"
	"time"

	"github.com/arm-doe/sts"
	"github.com/arm-doe/sts/cache"
	"github.com/arm-doe/sts/internal/verifrt"
)

func init() {
	verifrt.Register("H_C17_Retry", H_C17_Retry)
	verifrt.Register("H_C02_Finish", H_C02_Finish)
	verifrt.Register("H_C02_Validate", H_C02_Validate)
	verifrt.Register("H_C07_Recover", H_C07_Recover)
	verifrt.Register("H_C17_Scan", H_C17_Scan)
}

// vPolled is a poll answer with an arbitrary status code.
type vPolled struct {
	name string
	code int
	prev string
}

func (p *vPolled) GetName() string       { return p.name }
func (p *vPolled) GetSize() int64        { return 0 }
func (p *vPolled) GetHash() string       { return "" }
func (p *vPolled) TimeMs() int64         { return 0 }
func (p *vPolled) GetPrev() string       { return p.prev }
func (p *vPolled) GetStarted() time.Time { return time.Time{} }
func (p *vPolled) NotFound() bool        { return p.code == sts.ConfirmNone }
func (p *vPolled) Failed() bool          { return p.code == sts.ConfirmFailed }
func (p *vPolled) Received() bool        { return p.code == sts.ConfirmPassed }
func (p *vPolled) Waiting() bool         { return p.code == sts.ConfirmWaiting }

// vSource is a harness file source: a set of files with (symbolic) size and
// modification time, each holding one content version.
type vSrcFile struct {
	name    string
	size    int64
	time    time.Time
	tag     string // content version
	missing bool
}

func (f *vSrcFile) GetPath() string    { return "/out/" + f.name }
func (f *vSrcFile) GetName() string    { return f.name }
func (f *vSrcFile) GetSize() int64     { return f.size }
func (f *vSrcFile) GetTime() time.Time { return f.time }
func (f *vSrcFile) GetMeta() []byte    { return nil }

var errGone = errors.New("file does not exist")

type vSource struct {
	v       *verifrt.T
	files   map[string]*vSrcFile
	removed []string
	order   []string
	// onSync is called when Sync starts (a point in time at which a harness
	// lets something else happen)
	onSync func()
}

func (s *vSource) Scan(allow func(sts.File) bool) ([]sts.File, time.Time, error) {
	var out []sts.File
	for _, n := range s.order {
		f := s.files[n]
		if f.missing {
			continue
		}
		cp := *f
		if allow(&cp) {
			out = append(out, &cp)
		}
	}
	return out, s.v.Now(), nil
}
func (s *vSource) GetOpener() sts.Open {
	return func(f sts.File) (sts.Readable, error) {
		sf := s.files[f.GetName()]
		if sf == nil || sf.missing {
			return nil, errGone
		}
		return s.v.Readable(sf.tag, 0, sf.size), nil
	}
}
func (s *vSource) Remove(f sts.File) error {
	s.removed = append(s.removed, f.GetName())
	if sf := s.files[f.GetName()]; sf != nil {
		sf.missing = true
	}
	return nil
}
func (s *vSource) Sync(f sts.File) (sts.File, error) {
	if s.onSync != nil {
		s.onSync()
	}
	sf := s.files[f.GetName()]
	if sf == nil || sf.missing {
		return nil, errGone
	}
	if sf.size != f.GetSize() || !sf.time.Equal(f.GetTime()) {
		cp := *sf
		return &cp, nil
	}
	return nil, nil
}
func (s *vSource) IsNotExist(err error) bool   { return err == errGone }
func (s *vSource) ShouldIgnore(sts.File) bool { return false }

// O1: finish(p) for an arbitrary poll status code and arbitrary deletion
// settings: the file is marked done only for passed / waiting, removed only
// inside that transaction and only if deletion applies; every other code goes
// to the retry channel and touches neither cache nor store.
func H_C02_Finish(v *verifrt.T) {
	code := v.Int("code")
	del := v.Bool("tag-delete")
	delay := v.Duration("delete-delay", 0, 48*time.Hour)
	cleanSome := v.Bool("clean-some")
	root := v.TempRoot()
	os.MkdirAll(filepath.Join(root, "cache"), 0o755)
	c, err := cache.NewJSON(filepath.Join(root, "cache"), "/out", "k")
	v.Assert(err == nil, "cache created")
	ft, age := v.TimeAgo("file-age", 96*time.Hour)
	v.Assume(verifrt.Or(age+time.Minute <= delay, age >= delay+time.Minute))
	src := &vSource{v: v, files: map[string]*vSrcFile{"a": {name: "a", size: 5, time: ft, tag: "v1"}}, order: []string{"a"}}
	c.Add(&hashFile{File: src.files["a"], hash: "h"})
	broker := &Broker{
		Conf:      &Conf{Name: "v", Cache: c, Store: src, Tagger: func(string) string { return "t" }},
		tagMap:    map[string]*FileTag{"t": {Name: "t", Delete: del, DeleteDelay: delay}},
		cleanSome: cleanSome,
		chRetry:   make(chan sts.Polled, 1),
	}
	// the file may have been rewritten since it was hashed and sent (other
	// size and / or time): what is on disk is then not what the receiver
	// validated
	replaced := v.Choose("file-rewritten-since-it-was-sent", 2) == 1
	if replaced {
		dsize := v.Int64("size-change")
		dt := v.Duration("mtime-change", -time.Hour, time.Hour)
		v.Assume(dsize >= -4)
		v.Assume(dsize <= 4096)
		v.Assume(verifrt.Or(dsize != 0, dt != 0))
		src.files["a"] = &vSrcFile{name: "a", size: 5 + dsize, time: ft.Add(dt), tag: "v2"}
	}
	broker.finish(&vPolled{name: "a", code: code})
	positive := code == sts.ConfirmPassed || code == sts.ConfirmWaiting
	done := c.Get("a").IsDone()
	if replaced {
		v.Reach("replaced")
		v.Assert(len(src.removed) == 0, "C02 a file rewritten since it was sent is not deleted on the strength of the old version's confirmation (no identical validated copy exists)")
	}
	v.Assert(done == positive, "C02.O1 a file is marked done exactly for a passed / waiting answer")
	if len(src.removed) > 0 {
		v.Reach("deleted")
		v.Assert(positive, "C02.O1 a failed, unknown or missing answer never deletes the source file")
		v.Assert(cleanSome && del && (delay == 0 || age > delay), "C02.O1 a file is deleted only when deletion is configured and its delay has passed")
	}
	if positive {
		v.Reach("released")
		v.Assert(len(broker.chRetry) == 0, "C02.O1 a confirmed file is not retried")
	} else {
		v.Reach("retried")
		v.Assert(len(broker.chRetry) == 1, "C02.O1 any other answer re-queues the file")
	}
}

// O2: the real startValidate goroutine with one file and a validator that
// answers arbitrarily (error, no entry, none, failed, passed, waiting) for up
// to R rounds: the file is released only in a round whose answer was
// positive; 'none' PollAttempts times in a row sends it to retry.
func H_C02_Validate(v *verifrt.T) {
	rounds := v.Param("ROUNDS", 3)
	attempts := 1 + v.Choose("poll-attempts", 2)
	root := v.TempRoot()
	os.MkdirAll(filepath.Join(root, "cache"), 0o755)
	c, _ := cache.NewJSON(filepath.Join(root, "cache"), "/out", "k")
	src := &vSource{v: v, files: map[string]*vSrcFile{"a": {name: "a", size: 5, time: v.Now().Add(-time.Hour), tag: "v1"}}, order: []string{"a"}}
	c.Add(&hashFile{File: src.files["a"], hash: "h"})
	round := 0
	positiveSeen := false
	noneCount := 0
	broker := &Broker{
		Conf: &Conf{Name: "v", Cache: c, Store: src, Tagger: func(string) string { return "t" },
			PollAttempts: attempts, PollMaxCount: 10,
			Validator: func(files []sts.Pollable) ([]sts.Polled, error) {
				round++
				if round > rounds {
					return []sts.Polled{&vPolled{name: "a", code: sts.ConfirmPassed}}, nil
				}
				switch v.Choose("answer", 6) {
				case 0:
					return nil, errors.New("poll request failed")
				case 1:
					return nil, nil // answer without an entry for the file
				case 2:
					noneCount++
					return []sts.Polled{&vPolled{name: "a", code: sts.ConfirmNone}}, nil
				case 3:
					return []sts.Polled{&vPolled{name: "a", code: sts.ConfirmFailed}}, nil
				case 4:
					positiveSeen = true
					return []sts.Polled{&vPolled{name: "a", code: sts.ConfirmWaiting}}, nil
				default:
					positiveSeen = true
					return []sts.Polled{&vPolled{name: "a", code: sts.ConfirmPassed}}, nil
				}
			}},
		tagMap:     map[string]*FileTag{"t": {Name: "t", Delete: true}},
		cleanSome:  true,
		chRetry:    make(chan sts.Polled, 4),
		chValidate: make(chan sts.Pollable, 1),
	}
	broker.chValidate <- &progressFile{name: "a", size: 5, hash: "h", started: v.Now().Add(-time.Hour), completed: v.Now().Add(-time.Hour)}
	close(broker.chValidate)
	var wg sync.WaitGroup
	wg.Add(1)
	go broker.startValidate(&wg)
	wg.Wait()
	done := c.Get("a").IsDone()
	if round > rounds {
		positiveSeen = true
	}
	if done || len(src.removed) > 0 {
		v.Reach("released")
		v.Assert(positiveSeen, "C02.O2 a file is released only after a positive poll answer")
		v.Assert(len(broker.chRetry) == 0, "C02.O2 a released file is not re-queued")
	} else {
		v.Reach("retried")
		v.Assert(len(broker.chRetry) == 1, "C02.O2 a file that is not confirmed is re-queued, not dropped")
	}
}

type vSentLog struct{ sent []string }

func (l *vSentLog) Sent(f sts.Sent)                                    { l.sent = append(l.sent, f.GetName()) }
func (l *vSentLog) WasSent(string, string, time.Time, time.Time) bool { return false }

// C07: recover() against an arbitrary receiver state. File a is in the cache
// (not done, unchanged, hashed); the receiver lists a partial of it with ≤ 2
// recorded ranges (any record satisfying the receiver's record invariant), or
// nothing; a file z unknown to the cache and a done file d are listed too.
// The recovery poll answers arbitrarily and may fail E times first.
func H_C07_Recover(v *verifrt.T) {
	size := v.Int64("size")
	v.Assume(size >= 1)
	v.Assume(size <= 1<<40)
	root := v.TempRoot()
	os.MkdirAll(filepath.Join(root, "cache"), 0o755)
	c, _ := cache.NewJSON(filepath.Join(root, "cache"), "/out", "k")
	mt := v.Now().Add(-time.Hour)
	src := &vSource{v: v, files: map[string]*vSrcFile{
		"a": {name: "a", size: size, time: mt, tag: "v1"},
		"d": {name: "d", size: 7, time: mt, tag: "v1"},
	}, order: []string{"a", "d"}}
	c.Add(&hashFile{File: src.files["a"], hash: "h-a"})
	c.Add(&hashFile{File: src.files["d"], hash: "h-d"})
	c.Done("d", nil)
	// a cached, unconfirmed file that vanished from the outgoing directory while
	// the sender was down (it is visited last: the cache is walked by name)
	vanished := v.Choose("another-cached-file-vanished", 2) == 1
	if vanished {
		c.Add(&hashFile{File: &vSrcFile{name: "zz", size: 2, time: mt, tag: "v1"}, hash: "h-zz"})
		v.Reach("vanished-entry")
	}
	// while the sender was down the file may have been replaced
	changed := v.Choose("file-replaced-while-down", 3) // 0 no, 1 same size / other mtime, 2 other size
	switch changed {
	case 1:
		src.files["a"].time = mt.Add(time.Minute)
		src.files["a"].tag = "v2"
	case 2:
		src.files["a"].size = size + 1
		src.files["a"].tag = "v2"
	}
	// receiver's list
	var partials []*sts.Partial
	nr := v.Choose("ranges-on-record", 3)
	pa := &sts.Partial{Name: "a", Size: size, Hash: "h-a", Prev: "p-of-a"}
	prevEnd := int64(0)
	for k := 0; k < nr; k++ {
		b, e := v.Int64("beg"), v.Int64("end")
		v.Assume(prevEnd <= b)
		v.Assume(b < e)
		v.Assume(e <= size)
		pa.Parts = append(pa.Parts, &sts.ByteRange{Beg: b, End: e})
		prevEnd = e
	}
	if nr > 0 {
		if v.Choose("record-order-reversed", 2) == 1 && nr == 2 {
			pa.Parts[0], pa.Parts[1] = pa.Parts[1], pa.Parts[0]
		}
		partials = append(partials, pa)
	}
	partials = append(partials, &sts.Partial{Name: "z", Size: 3, Hash: "h-z"}, &sts.Partial{Name: "d", Size: 7, Hash: "h-d"})
	pollFails := v.Choose("poll-errors-first", v.Param("POLLERRS", 2)+1)
	code := v.Choose("poll-answer", 4) // none, failed, passed, waiting
	polls := 0
	var polled []string
	slog := &vSentLog{}
	broker := &Broker{
		Conf: &Conf{Name: "v", Cache: c, Store: src, Tagger: func(string) string { return "t" }, Logger: slog,
			PollMaxCount: 10,
			Recoverer:    func() ([]*sts.Partial, error) { return partials, nil },
			Validator: func(files []sts.Pollable) ([]sts.Polled, error) {
				polls++
				if polls <= pollFails {
					return nil, errors.New("poll request failed")
				}
				var out []sts.Polled
				for _, f := range files {
					polled = append(polled, f.GetName())
					out = append(out, &vPolled{name: f.GetName(), code: code})
				}
				return out, nil
			}},
		tagMap:  map[string]*FileTag{"t": {Name: "t"}},
		chRetry: make(chan sts.Polled, 4),
	}
	send, err := broker.recover()
	v.Assert(err == nil, "C07.O3 recovery is not abandoned because a poll request failed")
	var forA *recoverFile
	plainA := false
	zSeen, dSeen := false, false
	for _, f := range send {
		switch f.GetName() {
		case "a":
			if r, ok := f.(*recoverFile); ok {
				forA = r
			} else {
				plainA = true
			}
		case "z":
			r, ok := f.(*recoverFile)
			v.Assert(ok && r.IsAllocated(), "C07.O4 a file only the receiver knows is queued as an already-sent placeholder")
			zSeen = true
		case "d":
			r, ok := f.(*recoverFile)
			v.Assert(ok && r.IsAllocated(), "C07.O4 a done file is queued as an already-sent placeholder")
			dSeen = true
		}
	}
	v.Assert(zSeen && dSeen, "C07.O4 placeholders keep the ordering chain")
	doneA := c.Get("a").IsDone()
	if changed != 0 {
		// what is on disk is not what was (partly) sent: it must be neither
		// confirmed by name nor resumed; the next scan hashes and sends it
		v.Reach("replaced")
		v.Assert(!doneA, "C02 a file replaced while the sender was down is not released on the strength of the old version's confirmation")
		for _, n := range polled {
			v.Assert(n != "a", "C07 a replaced file is not polled under the old version's identity")
		}
		v.Assert(forA == nil && !plainA, "C07 a replaced file is left to the next scan")
		v.Assert(len(src.removed) == 0, "C02 nothing is deleted")
		return
	}
	// coverage of the record
	x := v.Int64("x")
	v.Assume(0 <= x)
	v.Assume(x < size)
	onRecord := false
	total := int64(0)
	for _, p := range pa.Parts {
		onRecord = verifrt.Or(onRecord, verifrt.And(p.Beg <= x, x < p.End))
		total += p.End - p.Beg
	}
	hasGap := nr > 0 && total < size
	if nr > 0 && hasGap {
		v.Reach("resumed")
		v.Assert(forA != nil && !doneA, "C07.O2 a partly received file is resumed")
		if forA != nil {
			inLeft := false
			last := int64(0)
			for _, r := range forA.left {
				v.Assert(r.Beg < r.End, "C07.O1 missing ranges are not empty")
				v.Assert(r.Beg >= last, "C07.O1 missing ranges ascend")
				last = r.End
				inLeft = verifrt.Or(inLeft, verifrt.And(r.Beg <= x, x < r.End))
			}
			v.Assert(inLeft == verifrt.Not(onRecord), "C07.O1 exactly the bytes the receiver does not report holding are sent again")
			v.Assert(forA.GetPrev() == "p-of-a", "C07.O4 a resumed file keeps the predecessor stored with the partial")
		}
	} else {
		// polled
		switch code {
		case 0: // none
			v.Reach("resent-whole")
			v.Assert(plainA && !doneA, "C07.O2 a file the receiver does not know is sent again, not released")
		case 1: // failed
			v.Reach("resent-failed")
			v.Assert((plainA || forA != nil) && !doneA, "C07.O2 a file that failed validation is sent again, not released")
		default:
			v.Reach("confirmed")
			v.Assert(doneA, "C07.O2 a file the receiver holds completely is confirmed rather than sent again")
			v.Assert(forA != nil && forA.IsAllocated(), "C07.O4 a confirmed file stays in the chain as placeholder")
		}
	}
	v.Assert(doneA || plainA || forA != nil, "C07.O3 no file is forgotten before it is confirmed")
}

// C17.O4 / C02.O5: version bookkeeping across scans with the real scan(), the
// real cache.JSON and a source whose file may be rewritten between scans
// (symbolic size and time): unchanged => not returned again; changed =>
// returned again with a fresh hash and NOT marked done, so it can neither be
// deleted by scan clean-up nor skipped by recovery before it is confirmed.
func H_C17_Scan(v *verifrt.T) {
	size1, size2 := v.Int64("size1"), v.Int64("size2")
	v.Assume(size1 >= 0)
	v.Assume(size1 <= 4096)
	v.Assume(size2 >= 0) // (0: the file was truncated to nothing)
	v.Assume(size2 <= 4096)
	t1 := v.Now().Add(-2 * time.Hour)
	dt := v.Duration("mtime-step", -time.Hour, time.Hour) // the new version may carry an older time (mv, cp -p, rsync -t)
	t2 := t1.Add(dt)
	h1 := v.Version("v1", size1)
	h2 := v.Version("v2", size2)
	root := v.TempRoot()
	os.MkdirAll(filepath.Join(root, "cache"), 0o755)
	c, _ := cache.NewJSON(filepath.Join(root, "cache"), "/out", "k")
	src := &vSource{v: v, files: map[string]*vSrcFile{"a": {name: "a", size: size1, time: t1, tag: "v1"}}, order: []string{"a"}}
	del := v.Bool("delete-configured")
	broker := &Broker{
		Conf: &Conf{Name: "v", Cache: c, Store: src, Tagger: func(string) string { return "t" },
			Threads: 1, PayloadSize: 1 << 20, CacheAge: 24 * time.Hour},
		tagMap:    map[string]*FileTag{"t": {Name: "t", Delete: del}},
		cleanSome: del,
	}
	ready := broker.scan()
	if size1 == 0 {
		v.Assert(len(ready) == 0, "C17.O3 an empty file is never queued")
		v.Reach("empty-skipped")
		return
	}
	v.Assert(len(ready) == 1 && ready[0].GetName() == "a" && ready[0].GetHash() == h1, "C17 a new file is hashed and queued")
	// second scan without any change
	v.Assert(len(broker.scan()) == 0, "C17.O4 an unchanged file is not picked up again")
	// the receiver confirms version 1
	broker.finish(&vPolled{name: "a", code: sts.ConfirmPassed})
	if del {
		v.Assert(len(src.removed) == 1, "C02 a confirmed file is deleted when deletion is configured")
		v.Reach("deleted-after-confirmation")
		return
	}
	v.Assert(c.Get("a").IsDone(), "C02 a confirmed file is marked done")
	// the file is rewritten (new content; size and/or time may or may not change)
	src.files["a"] = &vSrcFile{name: "a", size: size2, time: t2, tag: "v2"}
	// deletion becomes configured later / delay passes: clean-up may now run
	broker.tagMap["t"].Delete = true
	broker.cleanSome = true
	ready = broker.scan()
	changed := verifrt.Or(size2 != size1, dt != 0)
	if size2 == 0 {
		v.Assert(len(ready) == 0, "C17.O3 a zero-length file is never queued, also when it is what is left of a file that was sent before")
		v.Reach("truncated-to-nothing")
		return
	}
	if len(ready) == 1 {
		v.Reach("requeued")
		v.Assert(changed, "C17.O4 a file whose size and time are unchanged is not queued again")
		v.Assert(ready[0].GetHash() == h2, "C17.O4 a changed file is hashed again")
		cached := c.Get("a")
		v.Assert(cached != nil && !cached.IsDone(), "C02.O5 a changed file is not marked done before the new version is confirmed")
		// a further scan must not delete the unconfirmed new version
		broker.scan()
		v.Assert(len(src.removed) == 0, "C02 no source file is deleted before that version is confirmed")
	} else {
		v.Reach("not-requeued")
		v.Assert(verifrt.Not(changed), "C17.O4 a changed file is queued again")
	}
}

// C17 / C01: the real startRetry goroutine for a file whose validation failed:
// if the file changed on disk in the meantime it is dropped from the retry
// (the next scan hashes and sends the new version) — what is queued is never a
// mixture of the old size and the new content; an unchanged file is hashed
// again and queued whole.
func H_C17_Retry(v *verifrt.T) {
	size1, size2 := v.Int64("size1"), v.Int64("size2")
	v.Assume(size1 >= 1)
	v.Assume(size1 <= 4096)
	v.Assume(size2 >= 0) // (0: the file was truncated to nothing)
	v.Assume(size2 <= 4096)
	t1 := v.Now().Add(-2 * time.Hour)
	dt := v.Duration("mtime-step", -time.Hour, time.Hour)
	h1 := v.Version("v1", size1)
	h2 := v.Version("v2", size2)
	root := v.TempRoot()
	os.MkdirAll(filepath.Join(root, "cache"), 0o755)
	c, _ := cache.NewJSON(filepath.Join(root, "cache"), "/out", "k")
	src := &vSource{v: v, files: map[string]*vSrcFile{"a": {name: "a", size: size1, time: t1, tag: "v1"}}, order: []string{"a"}}
	want := h1
	c.Add(&hashFile{File: src.files["a"], hash: h1})
	rewritten := v.Choose("file-rewritten-before-the-failed-answer", 2) == 1
	if rewritten {
		src.files["a"] = &vSrcFile{name: "a", size: size2, time: t1.Add(dt), tag: "v2"}
		want = h2 // same size and time, other bytes: the retry hashes what is there now
	}
	changed := verifrt.And(rewritten, verifrt.Or(size2 != size1, dt != 0))
	broker := &Broker{
		Conf:      &Conf{Name: "v", Cache: c, Store: src, Tagger: func(string) string { return "t" }},
		tagMap:    map[string]*FileTag{"t": {Name: "t"}},
		chRetry:   make(chan sts.Polled, 1),
		chScanned: make(chan []sts.Hashed, 2),
	}
	broker.chRetry <- &vPolled{name: "a", code: sts.ConfirmFailed, prev: "p"}
	close(broker.chRetry)
	var wg sync.WaitGroup
	wg.Add(1)
	go broker.startRetry(&wg)
	wg.Wait()
	if len(broker.chScanned) == 1 {
		v.Reach("requeued")
		v.Assert(verifrt.Not(changed), "C17 a file that changed since it was sent is not re-queued by the retry (never a mixture of versions)")
		q := <-broker.chScanned
		v.Assert(len(q) == 1 && q[0].GetName() == "a" && q[0].GetSize() == size1 && q[0].GetHash() == want, "C17 an unchanged file is hashed again and re-queued whole")
		if r, ok := q[0].(*recoverFile); ok {
			v.Assert(r.GetPrev() == "p", "C04 the retried file keeps its predecessor")
		}
	} else {
		v.Reach("dropped")
		v.Assert(changed, "C03/C17 an unchanged file whose validation failed is sent again")
	}
}
