//go:build verif

package stage

// C09 (stage side) — Receive records a range only after exactly those bytes
// were written; Scan / Received report the stored record.

import (
	"path/filepath"

	"github.com/arm-doe/sts"
	"github.com/arm-doe/sts/internal/verifrt"
)

func init() {
	verifrt.Register("H_C09_Receive", H_C09_Receive)
	verifrt.Register("H_C09_Received", H_C09_Received)
}

// O5: Receive with a reader that delivers m ≤ End-Beg bytes (clean EOF) or
// fails after m bytes: a nil result implies m == End-Beg and the range is on
// record; an error leaves the record unchanged.
func H_C09_Receive(v *verifrt.T) {
	size := v.Int64("size")
	v.Assume(size >= 2)
	v.Assume(size <= 4096)
	beg, end := v.Int64("beg"), v.Int64("end")
	v.Assume(0 <= beg)
	v.Assume(beg < end)
	v.Assume(end <= size)
	m := v.Int64("delivered")
	v.Assume(0 <= m)
	v.Assume(m <= end-beg)
	h1 := v.Version("v1", size)
	e := newEnv(v)
	b := &vBinned{name: "a", hash: h1, size: size, beg: beg, end: end, t: v.Now()}
	e.s.Prepare([]sts.Binned{b})
	p := &sts.Partial{Name: "a", Size: size, Hash: h1, Source: "src", Parts: []*sts.ByteRange{{Beg: beg, End: end}}}
	fails := v.Choose("reader-fails", 2) == 1
	var err error
	if fails {
		err = e.s.Receive(p, v.FailingReader("v1", beg, m))
	} else {
		err = e.s.Receive(p, v.Reader("v1", beg, m))
	}
	v.Quiesce()
	cmp, _ := readLocalCompanion(filepath.Join(e.stage, "a"), "a")
	recorded := cmp != nil && companionPartExists(cmp, beg, end)
	if err == nil {
		v.Reach("accepted")
		v.Assert(!fails, "C09.O5 a failing reader is not acknowledged")
		v.Assert(m == end-beg, "C09.O5 a part is acknowledged only if every announced byte was received")
	} else {
		v.Reach("refused")
		v.Assert(!recorded, "C09.O5 a refused part is not put on record")
	}
	if recorded {
		v.Assert(err == nil, "C09.O5 a range on record was acknowledged")
	}
}

// O6 / C08.O5: Received(parts) = n  =>  each of the first n parts is on record
// (same version) or the file is known delivered; a different announced hash is
// never answered from the old version's record.
func H_C09_Received(v *verifrt.T) {
	size := v.Int64("size")
	v.Assume(size >= 3)
	v.Assume(size <= 4096)
	m := v.Int64("split")
	v.Assume(1 <= m)
	v.Assume(m < size)
	h1 := v.Version("v1", size)
	h2 := v.Version("v2", size)
	e := newEnv(v)
	// one part of version 1 is staged
	first := v.Choose("staged-part", 2)
	var sb, se int64
	if first == 0 {
		sb, se = 0, m
	} else {
		sb, se = m, size
	}
	v.Assert(e.sendPart("a", "", h1, size, sb, se, "v1") == nil, "C09 part received")
	// the sender asks about a range of version 1 or of version 2
	qb, qe := v.Int64("qbeg"), v.Int64("qend")
	v.Assume(0 <= qb)
	v.Assume(qb < qe)
	v.Assume(qe <= size)
	ask := h1
	if v.Choose("ask-version", 2) == 1 {
		ask = h2
	}
	n := e.s.Received([]sts.Binned{&vBinned{name: "a", hash: ask, size: size, beg: qb, end: qe, t: v.Now()}})
	if n == 1 {
		v.Reach("claimed")
		v.Assert(ask == h1, "C09.O6 a range of another version is never claimed from this version's record")
		v.Assert(verifrt.And(sb <= qb, qe <= se), "C09.O6 a claimed range lies inside what was received")
	} else {
		v.Reach("not-claimed")
		v.Assert(verifrt.Not(verifrt.And(ask == h1, verifrt.And(sb <= qb, qe <= se))), "C09.O6 a recorded range of the same version is acknowledged")
	}
}
