//go:build verif

package stage

// C01 — only hash-validated, byte-identical files reach the final directory.

import (
	"path/filepath"

	"github.com/arm-doe/sts"
	"github.com/arm-doe/sts/internal/verifrt"
)

func init() {
	verifrt.Register("H_C01_Transfer", H_C01_Transfer)
}

// O5 (core): one file sent in two parts with a symbolic size and split point,
// in either order, each part's bytes either the announced version's or foreign
// bytes (corruption in transit), optionally one part sent twice, optionally a
// receiver restart before the last part: whatever reaches the final directory
// is byte-identical to the announced version and logged under its hash; a
// completed file that does not match is reported failed and nothing of it is
// delivered.
func H_C01_Transfer(v *verifrt.T) {
	n := v.Param("PARTS", 2)
	size := v.Int64("size")
	v.Assume(size >= int64(n))
	v.Assume(size <= 4096)
	// n parts with symbolic boundaries 0 = b0 < b1 < ... < bn = size
	bounds := []int64{0}
	for k := 1; k < n; k++ {
		m := v.Int64("split")
		v.Assume(m > bounds[k-1])
		v.Assume(m < size-int64(n-k-1))
		bounds = append(bounds, m)
	}
	bounds = append(bounds, size)
	h1 := v.Version("v1", size)
	v.Version("junk", size)
	e := newEnv(v)
	// arrival order: any permutation of the parts
	left := make([]int, n)
	for k := range left {
		left[k] = k
	}
	var order []int
	for len(left) > 0 {
		j := 0
		if len(left) > 1 {
			j = v.Choose("next-part", len(left))
		}
		order = append(order, left[j])
		left = append(left[:j], left[j+1:]...)
	}
	corrupt := v.Choose("corrupt-part", n+1) - 1 // -1 none, else the index of the part whose bytes are wrong
	dup := v.Choose("duplicate", n+1) - 1        // -1 none, else the position in the arrival order that is sent twice
	restartAt := -1
	if v.Param("RESTART", 0) == 1 {
		restartAt = v.Choose("restart-before-arrival", n+1) - 1
	}
	for k, idx := range order {
		src := "v1"
		if corrupt == idx {
			src = "junk"
		}
		if restartAt == k && k > 0 {
			e.restart()
		}
		err := e.sendPart("a", "", h1, size, bounds[idx], bounds[idx+1], src)
		v.Assert(err == nil, "C01 a part is received without error")
		if dup == k && k < n-1 {
			err = e.sendPart("a", "", h1, size, bounds[idx], bounds[idx+1], src)
			v.Assert(err == nil, "C01 a duplicate part is received without error")
		}
	}
	v.Quiesce()
	status := e.s.GetFileStatus("a", v.Now())
	finalFiles := v.Files(e.final)
	for _, f := range finalFiles {
		v.Assert(f == "a", "C01 only the announced name appears in the final directory")
		v.Assert(v.FileIs(filepath.Join(e.final, f), "v1"), "C01 a delivered file is byte-identical to the announced version")
		v.Assert(e.logger.count(f, h1) >= 1, "C01 a delivered file is logged under its announced hash")
	}
	for _, r := range e.logger.records {
		v.Assert(r.hash == h1 && r.name == "a", "C01 the receive log names only the announced version")
	}
	if corrupt < 0 {
		v.Assert(len(finalFiles) == 1, "C01 an intact transfer is delivered")
		v.Assert(status == sts.ConfirmPassed, "C01 an intact, delivered file is confirmed")
		v.Reach("delivered")
	} else {
		v.Assert(len(finalFiles) == 0, "C01 content that does not match its announced hash is never delivered")
		v.Assert(len(e.logger.records) == 0, "C01 content that does not match its announced hash is never logged as received")
		v.Assert(status == sts.ConfirmFailed, "C01 a mismatch is reported as failed so that the sender transmits again")
		v.Reach("rejected")
		// ... and transmitting it again repairs it: the same parts, intact this time
		for _, idx := range order {
			v.Assert(e.sendPart("a", "", h1, size, bounds[idx], bounds[idx+1], "v1") == nil, "C01 a part of a failed file can be transmitted again")
		}
		v.Quiesce()
		v.Assert(v.FileIs(filepath.Join(e.final, "a"), "v1"), "C01 a file that failed validation is delivered once it has been transmitted again intact")
		v.Assert(e.s.GetFileStatus("a", v.Now()) == sts.ConfirmPassed, "C01 the repaired file is confirmed")
		v.Assert(e.logger.count("a", h1) == 1, "C01 the repaired file is logged once under its announced hash")
	}
}
