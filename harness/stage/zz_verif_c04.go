//go:build verif

package stage

// C04 — files of a group are delivered in order; none before its predecessor.
// C05 — each validated file version is delivered exactly once.
// C01 — a newer version replaces the staged one without mixing.

import (
	"path/filepath"
	"time"

	"github.com/arm-doe/sts"
	"github.com/arm-doe/sts/internal/verifrt"
)

func init() {
	verifrt.Register("H_C04_Order", H_C04_Order)
	verifrt.Register("H_C05_Retransmit", H_C05_Retransmit)
	verifrt.Register("H_C01_Versions", H_C01_Versions)
	verifrt.Register("H_C01_Superseded", H_C01_Superseded)
	verifrt.Register("H_C01_SupersededUnvalidated", H_C01_SupersededUnvalidated)
}

// statusSound: a positive poll answer is given only for content the receiver
// durably holds validated (C02.O7).
func statusSound(v *verifrt.T, e *vEnv, name, tag string) int {
	st := e.s.GetFileStatus(name, v.Now())
	if st == sts.ConfirmPassed || st == sts.ConfirmWaiting {
		held := v.FileIs(filepath.Join(e.stage, name+waitExt), tag) || v.FileIs(filepath.Join(e.final, name), tag) || e.logger.count(name, "") > 0
		v.Assert(held, "C02.O7 a positive poll answer only for content held validated (awaiting release or delivered and logged)")
	}
	return st
}

// H_C04_Order: b announces a as predecessor. All arrival orders, a failing
// validation first and being re-sent, a known from the log of an earlier run
// only, a restart at any boundary, retry timers firing: b is never logged or
// delivered before a, is reported waiting while held, and is released once a
// is delivered.
func H_C04_Order(v *verifrt.T) {
	size := v.Int64("size")
	v.Assume(size >= 1)
	v.Assume(size <= 4096)
	ha := v.Version("A", size)
	hb := v.Version("B", size)
	v.Version("junk", size)
	e := newEnv(v)
	aFromLog := v.Choose("a-known-from-log-only", 2) == 1
	if aFromLog {
		e.logger.records = append(e.logger.records, vRecord{name: "a", hash: ha, size: size})
	}
	// delivery order oracle, checked at the instant of logging
	e.logger.onReceived = func(name string) {
		if name == "b" {
			v.Assert(e.logger.count("a", "") >= 1, "C04 a file is never logged as received before its predecessor")
		}
	}
	bFirst := v.Choose("b-arrives-first", 2) == 1
	aCorruptFirst := !aFromLog && v.Choose("a-fails-validation-first", 2) == 1
	restartAt := 0
	if v.Param("RESTART", 1) == 1 {
		restartAt = v.Choose("restart-after-event", 4) // 0 = never
	}
	var events []string
	sendA := []string{"a"}
	if aCorruptFirst {
		sendA = []string{"a-corrupt", "a"}
	}
	if aFromLog {
		sendA = nil
	}
	if bFirst {
		events = append([]string{"b"}, sendA...)
	} else {
		events = append(sendA, "b")
	}
	for k, ev := range events {
		switch ev {
		case "a":
			v.Assert(e.sendPart("a", "", ha, size, 0, size, "A") == nil, "C04 part received")
		case "a-corrupt":
			v.Assert(e.sendPart("a", "", ha, size, 0, size, "junk") == nil, "C04 part received")
		case "b":
			v.Assert(e.sendPart("b", "a", hb, size, 0, size, "B") == nil, "C04 part received")
		}
		v.Quiesce()
		// while a is not delivered, b is held and reported waiting
		if v.Exists(filepath.Join(e.stage, "b"+waitExt)) {
			st := statusSound(v, e, "b", "B")
			v.Assert(st == sts.ConfirmWaiting || st == sts.ConfirmPassed, "C04 a held file is reported as waiting")
			v.Assert(!v.Exists(filepath.Join(e.final, "b")), "C04 a held file is not in the final directory")
			v.Reach("held")
		}
		if v.Exists(filepath.Join(e.final, "b")) {
			v.Assert(v.Exists(filepath.Join(e.final, "a")) || aFromLog, "C04 a file is never delivered before its predecessor")
		}
		if restartAt == k+1 {
			e.restart()
			e.logger.onReceived = func(name string) {
				if name == "b" {
					v.Assert(e.logger.count("a", "") >= 1, "C04 a file is never logged as received before its predecessor")
				}
			}
		}
	}
	// let retry timers run
	v.FireTimers()
	v.Quiesce()
	v.Assert(v.FileIs(filepath.Join(e.final, "b"), "B"), "C04 a held file is released once its predecessor is delivered")
	if !aFromLog {
		v.Assert(v.FileIs(filepath.Join(e.final, "a"), "A"), "C04 the predecessor is delivered")
	}
	v.Assert(e.logger.count("b", hb) == 1, "C05 a delivered version is logged once")
	v.Reach("both-delivered")
}

// H_C05_Retransmit: after version v1 of a has been delivered (and taken away
// by the downstream consumer), any retransmission — one part, the other part,
// the whole file — with or without a receiver restart in between is
// recognised: nothing is delivered or logged again and the sender is told the
// parts are already held.
func H_C05_Retransmit(v *verifrt.T) {
	size := v.Int64("size")
	v.Assume(size >= 2)
	v.Assume(size <= 4096)
	m := v.Int64("split")
	v.Assume(1 <= m)
	v.Assume(m < size)
	h1 := v.Version("v1", size)
	e := newEnv(v)
	if v.Choose("log-holds-another-name-twice-before", 2) == 1 {
		// two versions of another file were delivered earlier the same day:
		// the log a restart reloads has that name twice before a's record
		e.logger.records = append(e.logger.records,
			vRecord{name: "e", hash: "hash-e1", size: 3}, vRecord{name: "e", hash: "hash-e2", size: 4})
		v.Reach("repeated-name-in-log")
	}
	v.Assert(e.sendPart("a", "", h1, size, 0, m, "v1") == nil, "C05 part received")
	v.Assert(e.sendPart("a", "", h1, size, m, size, "v1") == nil, "C05 part received")
	v.Quiesce()
	final := filepath.Join(e.final, "a")
	v.Assert(v.FileIs(final, "v1"), "C05 set-up: delivered")
	v.Assert(e.logger.count("a", h1) == 1, "C05 set-up: logged once")
	// downstream consumer takes the file
	osRemoveFile(final)
	restart := v.Choose("restart-before-retransmission", 2) == 1
	oldLog := false
	if restart {
		switch v.Choose("age-of-the-log-record-at-restart", 2+v.Param("OLDLOG", 1)) {
		case 1:
			// delivered some hours ago: inside the window (24 h) that a restart
			// reloads from the receive log
			passTime(v, e, v.Duration("hours-since-delivery", 2*time.Hour, 23*time.Hour))
			v.Reach("aged-within-window")
		case 2:
			oldLog = true
			for k := range e.logger.records {
				e.logger.records[k].old = true
			}
		}
		e.restart()
	}
	// the sender asks first (data-recovery request) — unless it retransmits
	// blindly; the parts carry the file's modification time, which precedes
	// every log record of that version
	mtime := v.Now().Add(-20 * 24 * time.Hour)
	askFirst := v.Choose("sender-asks-first", 2) == 1
	blind := oldLog && !askFirst
	if askFirst {
		q := []sts.Binned{
			&vBinned{name: "a", hash: h1, size: size, beg: 0, end: m, t: mtime},
			&vBinned{name: "a", hash: h1, size: size, beg: m, end: size, t: mtime},
		}
		n := e.s.Received(q)
		v.Assert(n == 2, "C05.O3 retransmitted parts of a delivered version are answered as already received")
	}
	// ... and retransmits anyway (lost answer)
	what := v.Choose("retransmit", 3)
	if what == 0 || what == 2 {
		e.sendPart("a", "", h1, size, 0, m, "v1")
	}
	if what == 1 || what == 2 {
		e.sendPart("a", "", h1, size, m, size, "v1")
	}
	v.Quiesce()
	v.FireTimers()
	v.Quiesce()
	v.AssertKF(!v.Exists(final), "C05 a delivered version is not delivered again",
		"KF-C05-known-only-from-old-log", blind)
	v.AssertKF(e.logger.count("a", h1) == 1, "C05 a delivered version is not logged again",
		"KF-C05-known-only-from-old-log", blind)
	st := e.s.GetFileStatus("a", v.Now())
	v.AssertKF(st == sts.ConfirmPassed, "C05 a retransmitted, delivered version is confirmed (so the sender stops)",
		"KF-C05-known-only-from-old-log", blind)
	v.Reach("retransmitted")
}

// H_C01_Versions: a part of version v1 is staged, then the name is announced
// with a different hash (v2): the record afterwards holds only v2's ranges,
// v2 completes and is delivered byte-identical; v1 bytes never reach the final
// directory under v2's hash.
func H_C01_Versions(v *verifrt.T) {
	size := v.Int64("size")
	v.Assume(size >= 2)
	v.Assume(size <= 4096)
	m := v.Int64("split")
	v.Assume(1 <= m)
	v.Assume(m < size)
	h1 := v.Version("v1", size)
	h2 := v.Version("v2", size)
	e := newEnv(v)
	// first part of v1 (either half)
	if v.Choose("v1-part", 2) == 0 {
		e.sendPart("a", "", h1, size, 0, m, "v1")
	} else {
		e.sendPart("a", "", h1, size, m, size, "v1")
	}
	// v2, first half
	v.Assert(e.sendPart("a", "", h2, size, 0, m, "v2") == nil, "C01 part received")
	cmp, err := readLocalCompanion(filepath.Join(e.stage, "a"), "a")
	v.Assert(err == nil && cmp != nil, "C01 record present")
	if cmp != nil {
		v.Assert(cmp.Hash == h2, "C01.O4 a different announced hash replaces the record")
		v.Assert(len(cmp.Parts) == 1 && cmp.Parts[0].Beg == 0 && cmp.Parts[0].End == m, "C01.O4 the recorded ranges of the old version are discarded")
	}
	v.Quiesce()
	v.Assert(len(v.Files(e.final)) == 0, "C01 nothing is delivered while the new version is incomplete")
	v.Assert(e.sendPart("a", "", h2, size, m, size, "v2") == nil, "C01 part received")
	v.Quiesce()
	v.Assert(v.FileIs(filepath.Join(e.final, "a"), "v2"), "C01 the new version is delivered byte-identical")
	v.Assert(e.logger.count("a", h2) == 1 && e.logger.count("a", h1) == 0, "C01 logged under the hash of the delivered version")
	v.Reach("v2-delivered")
}

// H_C01_Superseded: version v1 of b is validated and held (its predecessor a
// has not arrived); then b is announced again with a new hash (v2) and a part
// of v2 arrives; the receiver restarts. Whatever is delivered as b afterwards
// must be byte-identical to the version whose hash is written to the log, and
// must not overtake a.
func H_C01_Superseded(v *verifrt.T) { c01superseded(v, false) }

// H_C01_SupersededUnvalidated: the same, but version 2 is received completely
// and the receiver dies before it has validated it (engine only: a process
// cannot be killed between two goroutines natively).
func H_C01_SupersededUnvalidated(v *verifrt.T) { c01superseded(v, true) }

func c01superseded(v *verifrt.T, v2complete bool) {
	size := v.Int64("size")
	v.Assume(size >= 2)
	v.Assume(size <= 4096)
	m := v.Int64("split")
	v.Assume(1 <= m)
	v.Assume(m < size)
	h1 := v.Version("v1", size)
	h2 := v.Version("v2", size)
	e := newEnv(v)
	v.Assert(e.sendPart("b", "a", h1, size, 0, size, "v1") == nil, "part received")
	v.Quiesce()
	v.Assert(v.Exists(filepath.Join(e.stage, "b"+waitExt)), "set-up: v1 of b is held waiting for a")
	// new version of b announced: first part only — or both parts, with the
	// receiver dying before it has validated the complete new version
	v.Assert(e.sendPart("b", "a", h2, size, 0, m, "v2") == nil, "part received")
	if v2complete {
		v.Assert(e.sendPart("b", "a", h2, size, m, size, "v2") == nil, "part received")
		// no Quiesce: killed before the validators run
		v.Reach("v2-complete-unvalidated")
	} else {
		v.Quiesce()
	}
	e.restart()
	// now the predecessor arrives
	hA := v.Version("A", size)
	v.Assert(e.sendPart("a", "", hA, size, 0, size, "A") == nil, "part received")
	v.Quiesce()
	v.FireTimers()
	v.Quiesce()
	fb := filepath.Join(e.final, "b")
	if v.Exists(fb) {
		v.Reach("b-delivered")
		v.Assert(e.logger.count("a", "") >= 1, "C04 b is not delivered before its predecessor a")
		for _, r := range e.logger.records {
			if r.name == "b" {
				tag := "v1"
				if r.hash == h2 {
					tag = "v2"
				}
				v.Assert(v.FileIs(fb, tag), "C01 the MD5 of a delivered file equals the hash written for it in the receive log")
			}
		}
	} else {
		v.Reach("b-not-delivered")
	}
	// the rest of the new version arrives: it is completed from the parts on
	// record and delivered under its own hash
	if v2complete {
		return
	}
	v.Assert(e.sendPart("b", "a", h2, size, m, size, "v2") == nil, "part received")
	v.Quiesce()
	v.FireTimers()
	v.Quiesce()
	if v.Exists(fb) {
		last := e.logger.records[len(e.logger.records)-1]
		if last.name == "b" && last.hash == h2 {
			v.Assert(v.FileIs(fb, "v2"), "C01 the new version is delivered byte-identical under its own hash")
			v.Reach("v2-delivered")
		}
	}
}
