//go:build verif

package stage

// C09 — two connections bring the two parts of a new file at the same time;
// each announces its part (Prepare) and delivers it (Receive). One of them is
// held back right after any one of its file-system calls until the other can
// go no further.

import (
	"path/filepath"

	"github.com/arm-doe/sts/internal/verifrt"
)

func init() {
	verifrt.Register("H_C09_ConcurrentPrepare", H_C09_ConcurrentPrepare)
}

// One preemption at a chosen point: the goroutine that makes the k-th
// file-system call (k = 1..MAXK, decided) is suspended after it until every
// other goroutine is blocked or done. Whatever k: both parts are acknowledged,
// every acknowledged part is on record with its bytes in place — so the file
// completes, validates and is delivered byte-identical.
func H_C09_ConcurrentPrepare(v *verifrt.T) {
	size := v.Int64("size")
	v.Assume(size >= 2)
	v.Assume(size <= 4096)
	m := v.Int64("split")
	v.Assume(1 <= m)
	v.Assume(m < size)
	h1 := v.Version("v1", size)
	e := newEnv(v)
	parts := [][2]int64{{0, m}, {m, size}}
	k := 1 + v.Choose("held-after-fs-call", v.Param("MAXK", 12))
	v.DelayAtFS(k)
	errs := make([]error, 2)
	done := make(chan int, 2)
	for j, p := range parts {
		j, p := j, p
		go func() {
			errs[j] = e.sendPart("a", "", h1, size, p[0], p[1], "v1")
			done <- j
		}()
	}
	v.Quiesce()
	v.DelayAtFS(0)
	v.Assert(len(done) == 2, "both requests return")
	v.Assert(errs[0] == nil && errs[1] == nil, "C09 both parts are acknowledged")
	v.Quiesce()
	final := filepath.Join(e.final, "a")
	if v.Exists(final) {
		v.Assert(v.FileIs(final, "v1"), "C01 what is delivered is the announced version byte for byte")
		v.Reach("delivered")
		return
	}
	cmp, _ := readLocalCompanion(filepath.Join(e.stage, "a"), "a")
	v.Assert(cmp != nil && companionPartExists(cmp, 0, m) && companionPartExists(cmp, m, size), "C09 every acknowledged part is on record, also when two connections prepare and deliver at the same time")
	v.Assert(false, "C09 a file whose parts were all acknowledged (bytes in place) completes and validates")
}
