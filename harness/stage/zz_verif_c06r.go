//go:build verif

package stage

// C06 — a file the receiver is told to deliver under another name (a rename
// rule of the source) survives a receiver crash at any point under that name.

import (
	"os"
	"path/filepath"
	"strings"
	"time"

	"github.com/arm-doe/sts"
	"github.com/arm-doe/sts/internal/verifrt"
)

func init() {
	verifrt.Register("H_C06_RenamedCrash", H_C06_RenamedCrash)
}

// vDiskLoggerR: durable reference receive log that keeps the delivery name.
type vDiskLoggerR struct {
	v    *verifrt.T
	path string
}

func (l *vDiskLoggerR) Received(f sts.Received) {
	fh, err := os.OpenFile(l.path, os.O_APPEND|os.O_CREATE|os.O_WRONLY, 0o644)
	if err != nil {
		panic("reference logger: " + err.Error())
	}
	fh.WriteString(f.GetName() + "|" + f.GetRenamed() + "|" + f.GetHash() + "\n")
	fh.Close()
}

func (l *vDiskLoggerR) lines() [][3]string {
	b, err := os.ReadFile(l.path)
	if err != nil {
		return nil
	}
	var out [][3]string
	for _, ln := range strings.Split(string(b), "\n") {
		if p := strings.Split(ln, "|"); len(p) == 3 {
			out = append(out, [3]string{p[0], p[1], p[2]})
		}
	}
	return out
}

func (l *vDiskLoggerR) WasReceived(name, hash string, after, before time.Time) bool {
	for _, r := range l.lines() {
		if r[0] == name && (hash == "" || r[2] == hash) {
			return true
		}
	}
	return false
}

func (l *vDiskLoggerR) Parse(handler func(name, renamed, hash string, size int64, t time.Time) bool, after, before time.Time) bool {
	for _, r := range l.lines() {
		if handler(r[0], r[1], r[2], 0, l.v.Now().Add(-time.Minute)) {
			return true
		}
	}
	return false
}

// One complete file "a" announced with the delivery name "a2" (symbolic size),
// with or without a predecessor that is still missing. The receiver dies
// immediately before its k-th file-system call (every k) or when idle; a new
// receiver recovers; the sender asks what is held, sends the rest again, the
// predecessor arrives. The file is delivered under its delivery name and under
// no other, byte-identical, and every log record of it carries that name.
func H_C06_RenamedCrash(v *verifrt.T) {
	size := v.Int64("size")
	v.Assume(size >= 1)
	v.Assume(size <= 4096)
	h1 := v.Version("v1", size)
	k := 1 + v.Choose("crash-before-fs-call", v.Param("MAXK", 30))
	prev := ""
	held := v.Choose("file-has-predecessor", 2) == 1
	if held {
		prev = "p"
	}
	root := v.TempRoot()
	dlog := &vDiskLoggerR{v: v, path: filepath.Join(root, "recv.log")}
	var e *vEnv
	mkEnv := func() {
		e = &vEnv{v: v, root: root, stage: filepath.Join(root, "stage"), final: filepath.Join(root, "final"), logger: &vLogger{v: v}}
		e.s = New("src", e.stage, e.final, dlog, nil, nil)
	}
	send := func() error {
		b := &vBinned{name: "a", renamed: "a2", prev: prev, hash: h1, size: size, beg: 0, end: size, t: v.Now()}
		e.s.Prepare([]sts.Binned{b})
		p := &sts.Partial{Name: "a", Renamed: "a2", Prev: prev, Size: size, Hash: h1, Source: "src",
			Parts: []*sts.ByteRange{{Beg: 0, End: size}}}
		return e.s.Receive(p, v.Reader("v1", 0, size))
	}
	crashed := v.RunUntilCrash(k, func() {
		mkEnv()
		send()
		v.Quiesce()
	})
	if !crashed {
		v.Reach("no-crash")
		v.Assert(held || v.FileIs(filepath.Join(e.final, "a2"), "v1"), "C06 without a crash the file is delivered under its delivery name")
		v.KillProcess()
	} else {
		v.Reach("crashed")
	}
	mkEnv()
	e.s.Recover()
	v.Quiesce()
	check := func() {
		for _, f := range v.Files(e.final) {
			if !strings.HasSuffix(f, ".lck") {
				v.Assert(f == "a2" || f == "p", "C06 recovery delivers a file under the name the sender asked for and under no other")
			}
		}
	}
	check()
	deliveredEarly := v.Exists(filepath.Join(e.final, "a2"))
	if deliveredEarly {
		v.Assert(v.FileIs(filepath.Join(e.final, "a2"), "v1"), "C06 what recovery delivers is the validated version")
		os.Remove(filepath.Join(e.final, "a2"))
		v.Reach("delivered-before-resumption")
	}
	q := []sts.Binned{&vBinned{name: "a", renamed: "a2", prev: prev, hash: h1, size: size, beg: 0, end: size, t: v.Now().Add(-20 * 24 * 3600e9)}}
	if e.s.Received(q) == 0 {
		v.Assert(send() == nil, "C06 a part the receiver does not hold can be sent again")
		v.Reach("sent-again")
	}
	v.Quiesce()
	if held {
		hp := v.Version("P", size)
		v.Assert(e.sendPart("p", "", hp, size, 0, size, "P") == nil, "part received")
		v.Quiesce()
	}
	v.FireTimers()
	v.Quiesce()
	check()
	if deliveredEarly {
		v.Assert(!v.Exists(filepath.Join(e.final, "a2")), "C06 a file already logged and delivered is not delivered again")
	} else {
		v.Assert(v.FileIs(filepath.Join(e.final, "a2"), "v1"), "C06 after recovery and resumption the file is delivered under its delivery name, byte-identical")
	}
	n := 0
	for _, r := range dlog.lines() {
		if r[0] == "a" {
			n++
			v.Assert(r[1] == "a2" && r[2] == h1, "C06/C18 the log record of a delivered file states the name it was delivered under")
		}
	}
	v.Assert(n >= 1 && n <= 2, "C06 only a crash between logging and moving may repeat the log record")
	v.Assert(e.s.GetFileStatus("a", v.Now()) == sts.ConfirmPassed, "C06 the delivered file is confirmed")
}
