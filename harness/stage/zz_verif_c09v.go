//go:build verif

package stage

// C09 — the record of a partly received file is the record of ONE version.

import (
	"path/filepath"

	"github.com/arm-doe/sts"
	"github.com/arm-doe/sts/internal/verifrt"
)

func init() {
	verifrt.Register("H_C09_NewVersion", H_C09_NewVersion)
	verifrt.Register("H_C09_Concurrent", H_C09_Concurrent)
}

// A part of version 1 of a file is on record; then a part of version 2 (another
// hash, arbitrary size and range) of the same name arrives. Afterwards the
// record describes version 2 only: its hash and size, exactly the range just
// received — nothing of version 1 is claimed for version 2, the file does not
// count as complete unless that one range is the whole of version 2, and a
// complete version 2 that is delivered is version 2 byte for byte.
func H_C09_NewVersion(v *verifrt.T) {
	size1, size2 := v.Int64("size1"), v.Int64("size2")
	v.Assume(size1 >= 2)
	v.Assume(size1 <= 4096)
	v.Assume(size2 >= 2)
	v.Assume(size2 <= 4096)
	b1, e1 := v.Int64("beg1"), v.Int64("end1")
	v.Assume(0 <= b1)
	v.Assume(b1 < e1)
	v.Assume(e1 <= size1)
	v.Assume(e1-b1 < size1) // version 1 is not complete
	b2, e2 := v.Int64("beg2"), v.Int64("end2")
	v.Assume(0 <= b2)
	v.Assume(b2 < e2)
	v.Assume(e2 <= size2)
	h1 := v.Version("v1", size1)
	h2 := v.Version("v2", size2)
	e := newEnv(v)
	v.Assert(e.sendPart("a", "", h1, size1, b1, e1, "v1") == nil, "C09 part received")
	v.Assert(e.sendPart("a", "", h2, size2, b2, e2, "v2") == nil, "C09 a part of a newer version is received")
	v.Quiesce()
	whole := verifrt.And(b2 == 0, e2 == size2)
	cmp, _ := readLocalCompanion(filepath.Join(e.stage, "a"), "a")
	if cmp != nil {
		v.Reach("on-record")
		v.Assert(cmp.Hash == h2 && cmp.Size == size2, "C09 the record of a partly received file describes the version that is being received")
		v.Assert(len(cmp.Parts) == 1 && cmp.Parts[0].Beg == b2 && cmp.Parts[0].End == e2, "C09 ranges received for an older version are not claimed for the new one")
		v.Assert(verifrt.Not(whole), "C09 a completely received file is taken off the record")
	}
	// what the sender is told
	q := func(qb, qe int64) int {
		return e.s.Received([]sts.Binned{&vBinned{name: "a", hash: h2, size: size2, beg: qb, end: qe, t: v.Now()}})
	}
	disjoint := verifrt.Or(e1 <= b2, e2 <= b1)
	if b1 < size2 && e1 <= size2 {
		v.Assert(verifrt.Implies(verifrt.And(disjoint, verifrt.Not(whole)), q(b1, e1) == 0), "C09 a range received only for the older version is not acknowledged for the new one")
	}
	final := filepath.Join(e.final, "a")
	if v.Exists(final) {
		v.Reach("delivered")
		v.Assert(whole, "C09 a file is complete only when every byte of THAT version was received")
		v.Assert(v.FileIs(final, "v2"), "C01 what is delivered is the announced version byte for byte")
	} else {
		v.Assert(verifrt.Not(whole), "C09 a version received in one piece is complete")
	}
}

// Two parts of one file arrive at the same time on two connections (two
// goroutines), under the engine's adversarial schedules: a goroutine about to
// take a mutex, and a goroutine that has just made a file-system call, lets
// the other run first — so both requests are inside Receive together. The path lock must
// serialise them: afterwards both acknowledged parts are on record (or the
// file is complete and delivered), whatever the interleaving.
func H_C09_Concurrent(v *verifrt.T) {
	size := v.Int64("size")
	v.Assume(size >= 2)
	v.Assume(size <= 4096)
	m := v.Int64("split")
	v.Assume(1 <= m)
	v.Assume(m < size)
	h1 := v.Version("v1", size)
	e := newEnv(v)
	parts := [][2]int64{{0, m}, {m, size}}
	// both requests have announced their parts (Prepare); optionally the lock
	// entry of the name has just been dropped again, as the delivery of an
	// earlier version of the same name does when it finishes
	for _, p := range parts {
		e.s.Prepare([]sts.Binned{&vBinned{name: "a", hash: h1, size: size, beg: p[0], end: p[1], t: v.Now()}})
	}
	if v.Choose("lock-entry-dropped-by-an-earlier-delivery", 2) == 1 {
		e.s.delPathLock(filepath.Join(e.stage, "a"))
	}
	v.YieldOnLock(v.Choose("yield-before-locks", 2) == 1)
	v.YieldOnFS(v.Choose("yield-after-file-system-calls", 2) == 1)
	errs := make([]error, 2)
	done := make(chan int, 2)
	for k, p := range parts {
		k, p := k, p
		go func() {
			errs[k] = e.s.Receive(&sts.Partial{Name: "a", Size: size, Hash: h1, Source: "src",
				Parts: []*sts.ByteRange{{Beg: p[0], End: p[1]}}}, v.Reader("v1", p[0], p[1]-p[0]))
			done <- k
		}()
	}
	v.Quiesce()
	v.YieldOnLock(false)
	v.YieldOnFS(false)
	v.Assert(len(done) == 2, "both requests return")
	v.Assert(errs[0] == nil && errs[1] == nil, "C09 both parts are acknowledged")
	v.Quiesce()
	final := filepath.Join(e.final, "a")
	if v.Exists(final) {
		v.Assert(v.FileIs(final, "v1"), "C01 what is delivered is the announced version byte for byte")
		v.Reach("delivered")
		return
	}
	cmp, _ := readLocalCompanion(filepath.Join(e.stage, "a"), "a")
	v.Assert(cmp != nil && companionPartExists(cmp, 0, m) && companionPartExists(cmp, m, size), "C09 every acknowledged part is on record, also when parts arrive at the same time")
	v.Assert(false, "C09 a file whose parts were all acknowledged completes")
}
