//go:build verif

package stage

// C09 — the record of a partly received file is the record of ONE version.

import (
	"path/filepath"

	"github.com/arm-doe/sts"
	"github.com/arm-doe/sts/internal/verifrt"
)

func init() {
	verifrt.Register("H_C09_NewVersion", H_C09_NewVersion)
}

// A part of version 1 of a file is on record; then a part of version 2 (another
// hash, arbitrary size and range) of the same name arrives. Afterwards the
// record describes version 2 only: its hash and size, exactly the range just
// received — nothing of version 1 is claimed for version 2, the file does not
// count as complete unless that one range is the whole of version 2, and a
// complete version 2 that is delivered is version 2 byte for byte.
func H_C09_NewVersion(v *verifrt.T) {
	size1, size2 := v.Int64("size1"), v.Int64("size2")
	v.Assume(size1 >= 2)
	v.Assume(size1 <= 4096)
	v.Assume(size2 >= 2)
	v.Assume(size2 <= 4096)
	b1, e1 := v.Int64("beg1"), v.Int64("end1")
	v.Assume(0 <= b1)
	v.Assume(b1 < e1)
	v.Assume(e1 <= size1)
	v.Assume(e1-b1 < size1) // version 1 is not complete
	b2, e2 := v.Int64("beg2"), v.Int64("end2")
	v.Assume(0 <= b2)
	v.Assume(b2 < e2)
	v.Assume(e2 <= size2)
	h1 := v.Version("v1", size1)
	h2 := v.Version("v2", size2)
	e := newEnv(v)
	v.Assert(e.sendPart("a", "", h1, size1, b1, e1, "v1") == nil, "C09 part received")
	v.Assert(e.sendPart("a", "", h2, size2, b2, e2, "v2") == nil, "C09 a part of a newer version is received")
	v.Quiesce()
	whole := verifrt.And(b2 == 0, e2 == size2)
	cmp, _ := readLocalCompanion(filepath.Join(e.stage, "a"), "a")
	if cmp != nil {
		v.Reach("on-record")
		v.Assert(cmp.Hash == h2 && cmp.Size == size2, "C09 the record of a partly received file describes the version that is being received")
		v.Assert(len(cmp.Parts) == 1 && cmp.Parts[0].Beg == b2 && cmp.Parts[0].End == e2, "C09 ranges received for an older version are not claimed for the new one")
		v.Assert(verifrt.Not(whole), "C09 a completely received file is taken off the record")
	}
	// what the sender is told
	q := func(qb, qe int64) int {
		return e.s.Received([]sts.Binned{&vBinned{name: "a", hash: h2, size: size2, beg: qb, end: qe, t: v.Now()}})
	}
	disjoint := verifrt.Or(e1 <= b2, e2 <= b1)
	if b1 < size2 && e1 <= size2 {
		v.Assert(verifrt.Implies(verifrt.And(disjoint, verifrt.Not(whole)), q(b1, e1) == 0), "C09 a range received only for the older version is not acknowledged for the new one")
	}
	final := filepath.Join(e.final, "a")
	if v.Exists(final) {
		v.Reach("delivered")
		v.Assert(whole, "C09 a file is complete only when every byte of THAT version was received")
		v.Assert(v.FileIs(final, "v2"), "C01 what is delivered is the announced version byte for byte")
	} else {
		v.Assert(verifrt.Not(whole), "C09 a version received in one piece is complete")
	}
}
