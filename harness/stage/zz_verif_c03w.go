//go:build verif

package stage

// C03 / C04 — a held file whose predecessor was delivered long ago (known only
// through the receive log, several look-back periods before the cache start)
// is re-examined on a timer, each time further back, until the record is found.

import (
	"path/filepath"
	"time"

	"github.com/arm-doe/sts"
	"github.com/arm-doe/sts/internal/verifrt"
)

func init() {
	verifrt.Register("H_C03_OldPredecessor", H_C03_OldPredecessor)
}

// Predecessor a was delivered D days ago (D = 1..MAXD, chosen; half a day is
// added so that no look-back boundary coincides with it); only the receive log
// knows. b, which follows a, arrives completely and is validated. The stage
// looks one period further back every 10 s; b must be delivered after at most
// D + 3 timer firings (the earliest pending timer each time, so the model clock
// moves in steps of 10 s and the periods stay one day long), exactly once, and be confirmed — it must not stay
// in the staging area for ever.
func H_C03_OldPredecessor(v *verifrt.T) {
	size := v.Int64("size")
	v.Assume(size >= 1)
	v.Assume(size <= 4096)
	hA := v.Version("A", size)
	hB := v.Version("B", size)
	maxd := v.Param("MAXD", 5)
	d := 1 + v.Choose("predecessor-delivered-days-ago", maxd)
	e := newEnv(v)
	e.logger.records = append(e.logger.records, vRecord{name: "a", hash: hA, size: size,
		t: v.Now().Add(-time.Duration(d)*24*time.Hour - 12*time.Hour)})
	// the receiver was restarted since: its memory starts a day before the restart
	e.restart()
	v.Assert(e.sendPart("b", "a", hB, size, 0, size, "B") == nil, "part received")
	v.Quiesce()
	fb := filepath.Join(e.final, "b")
	looks := 0
	for !v.Exists(fb) && looks < d+3 {
		v.NextTimer()
		looks++
	}
	if looks > 0 {
		v.Reach("re-examined")
	}
	v.Assert(v.FileIs(fb, "B"), "C03 a held file whose predecessor's delivery is recorded in the receive log is released after a bounded number of re-examinations (the look-back reaches the record)")
	v.Assert(e.logger.count("b", hB) == 1, "C05 delivered and logged once")
	v.Assert(e.s.GetFileStatus("b", v.Now()) == sts.ConfirmPassed, "C03 the released file is confirmed")
	v.Assert(!v.Exists(filepath.Join(e.stage, "b"+waitExt)), "C03 nothing is left in the staging area")
}
