//go:build verif

package stage

// C20 — staging clean-up removes only what is already delivered.

import (
	"path/filepath"
	"time"

	"github.com/arm-doe/sts"

	"github.com/arm-doe/sts/internal/verifrt"
)

func init() {
	verifrt.Register("H_C20_Strays", H_C20_Strays)
	verifrt.Register("H_C20_Held", H_C20_Held)
	verifrt.Register("H_C20_Unvalidated", H_C20_Unvalidated)
	verifrt.Register("H_C20_Prune", H_C20_Prune)
}

// O1/O2: a left-over partial of name "a" (version v1 or a newer version v2) of
// symbolic age, while version v1 of that name is (i) delivered in this run,
// (ii) known from the receive log only, (iii) unknown: CleanNow removes the
// partial and its companion only if it is older than the threshold AND the
// very version it belongs to (same hash) has been delivered or logged;
// otherwise the partial, its record and its bytes stay.
func H_C20_Strays(v *verifrt.T) {
	size := v.Int64("size")
	v.Assume(size >= 2)
	v.Assume(size <= 4096)
	m := v.Int64("split")
	v.Assume(1 <= m)
	v.Assume(m < size)
	h1 := v.Version("v1", size)
	h2 := v.Version("v2", size)
	e := newEnv(v)
	knowledge := v.Choose("v1-knowledge", 3) // 0 delivered in this run, 1 log only, 2 unknown
	switch knowledge {
	case 0:
		v.Assert(e.sendPart("a", "", h1, size, 0, size, "v1") == nil, "C20 set-up: v1 received")
		v.Quiesce()
		v.Assert(v.FileIs(filepath.Join(e.final, "a"), "v1"), "C20 set-up: v1 delivered")
	case 1:
		e.logger.records = append(e.logger.records, vRecord{name: "a", hash: h1, size: size})
	}
	// the left-over partial
	which := v.Choose("partial-version", 2)
	ph, ptag := h1, "v1"
	if which == 1 {
		ph, ptag = h2, "v2"
	}
	part := filepath.Join(e.stage, "a.part")
	cmpPath := filepath.Join(e.stage, "a.cmp")
	preparedOnly := v.Choose("only-prepared-no-part-received-yet", 2) == 1
	if preparedOnly {
		// the request was announced (Prepare) but no part has been recorded yet
		e.s.Prepare([]sts.Binned{&vBinned{name: "a", hash: ph, size: size, beg: 0, end: m, t: v.Now()}})
		v.Assert(v.Exists(part), "C20 set-up: partial prepared")
	} else {
		v.Assert(e.sendPart("a", "", ph, size, 0, m, ptag) == nil, "C20 set-up: part of the left-over received")
		v.Assert(v.Exists(part) && v.Exists(cmpPath), "C20 set-up: partial and companion staged")
	}
	age := v.Duration("age", 0, 72*time.Hour)
	v.Assume(verifrt.Or(age+time.Minute <= 24*time.Hour, age >= 24*time.Hour+time.Minute)) // margin for native replay
	v.SetAge(part, age)

	e.s.CleanNow()
	v.Quiesce()

	old := age >= 24*time.Hour
	sameVersionDelivered := which == 0 && knowledge != 2
	if preparedOnly {
		// without a record the version of the partial is unknown: only age and
		// "this name was delivered" can justify removing it
		if !v.Exists(part) {
			v.Reach("removed")
			v.Assert(old, "C20.O1 nothing younger than the threshold is removed")
			v.Assert(knowledge != 2, "C20.O1 a partial is removed only if its name was delivered or logged")
		} else {
			v.Reach("kept")
		}
		return
	}
	if v.Exists(part) {
		v.Reach("kept")
	} else {
		v.Reach("removed")
		v.Assert(old, "C20.O1 nothing younger than the threshold is removed")
		v.Assert(sameVersionDelivered, "C20.O1 a partial is removed only if that very version (name and hash) was delivered or logged")
	}
	if !v.Exists(cmpPath) {
		v.Assert(!v.Exists(part), "C20.O1 a companion is removed only together with its stray partial")
	}
	if !(old && sameVersionDelivered) {
		// still in flight: record and bytes must survive the cleaning
		v.Assert(v.Exists(part) && v.Exists(cmpPath), "C20.O2 a file still being received keeps its partial and its record")
		cmp, err := readLocalCompanion(filepath.Join(e.stage, "a"), "a")
		v.Assert(err == nil && cmp != nil && cmp.Hash == ph && companionPartExists(cmp, 0, m), "C20.O2 the record of received parts survives cleaning")
	}
	if old && sameVersionDelivered {
		v.Assert(!v.Exists(part), "C20 a stale partial of a delivered version is cleaned up")
	}
}

// O3: pruneTree removes only directories that are empty at removal time and
// older than minAge, children before parents, never files.
func H_C20_Prune(v *verifrt.T) {
	size := int64(4)
	v.Version("v1", size)
	e := newEnv(v)
	// layout: stage/d1/d2 (empty), stage/d3/f (file), stage/d4 (empty, young)
	d1 := filepath.Join(e.stage, "d1")
	d2 := filepath.Join(d1, "d2")
	d3 := filepath.Join(e.stage, "d3")
	d4 := filepath.Join(e.stage, "d4")
	v.PutVersionFile(filepath.Join(d2, "x"), "v1")
	v.PutVersionFile(filepath.Join(d3, "f"), "v1")
	v.PutVersionFile(filepath.Join(d4, "x"), "v1")
	remove := func(p string) {
		// leave the directory empty
		v.Assert(v.Exists(p), "set-up")
	}
	_ = remove
	minAge := v.Duration("minage", time.Hour, 48*time.Hour)
	ages := map[string]time.Duration{}
	for _, d := range []string{d1, d2, d3, d4} {
		a := v.Duration("dir-age", 0, 96*time.Hour)
		v.Assume(verifrt.Or(a+time.Minute <= minAge, a >= minAge+time.Minute))
		ages[d] = a
	}
	// make d2 and d4 empty through the real API the cleaner would see
	emptyDir(v, d2)
	emptyDir(v, d4)
	for d, a := range ages {
		v.SetAge(d, a)
	}
	e.s.Prune(minAge)
	v.Assert(v.Exists(filepath.Join(d3, "f")), "C20.O3 pruning never removes files")
	v.Assert(v.Exists(d3), "C20.O3 a directory that holds a file is kept")
	if !v.Exists(d2) {
		v.Assert(ages[d2] >= minAge, "C20.O3 only directories older than the minimum age are removed")
		v.Reach("removed-child")
	}
	if !v.Exists(d4) {
		v.Assert(ages[d4] >= minAge, "C20.O3 only directories older than the minimum age are removed")
	}
	if !v.Exists(d1) {
		v.Assert(!v.Exists(d2), "C20.O3 a parent is removed only after its children")
		v.Assert(ages[d1] >= minAge, "C20.O3 only directories older than the minimum age are removed")
		v.Reach("removed-parent")
	}
	if ages[d2] >= minAge {
		v.Assert(!v.Exists(d2), "C20.O3 an empty, old directory is removed")
	}
}

// O2b: a file that is validated but held for a predecessor that has not arrived
// (its body is <name>.wait, its record <name>.cmp) while a stale duplicate
// partial of the same name lies around (the sender announced it again and never
// sent a byte): cleaning may remove the stale partial, but the held file keeps
// its record — after a restart recovery still finds it, and it is delivered
// once its predecessor arrives.
func H_C20_Held(v *verifrt.T) {
	size := v.Int64("size")
	v.Assume(size >= 1)
	v.Assume(size <= 4096)
	h1 := v.Version("v1", size)
	hp := v.Version("P", size)
	e := newEnv(v)
	v.Assert(e.sendPart("a", "p", h1, size, 0, size, "v1") == nil, "C20 set-up: the file is received")
	v.Quiesce()
	wait := filepath.Join(e.stage, "a.wait")
	cmpPath := filepath.Join(e.stage, "a.cmp")
	v.Assert(v.Exists(wait) && v.Exists(cmpPath), "C20 set-up: validated and held for its predecessor")
	// announced again, nothing sent
	e.s.Prepare([]sts.Binned{&vBinned{name: "a", prev: "p", hash: h1, size: size, beg: 0, end: size, t: v.Now()}})
	part := filepath.Join(e.stage, "a.part")
	if v.Exists(part) {
		v.Reach("stale-partial")
		age := v.Duration("age", 0, 72*time.Hour)
		v.Assume(verifrt.Or(age+time.Minute <= 24*time.Hour, age >= 24*time.Hour+time.Minute))
		v.SetAge(part, age)
	}
	e.s.CleanNow()
	v.Quiesce()
	v.Assert(v.Exists(wait), "C20.O2 cleaning never removes a validated file that waits for its predecessor")
	v.Assert(v.Exists(cmpPath), "C20.O2 a held file keeps its record while it waits (recovery finds it only through that record)")
	// restart, then the predecessor arrives
	e.restart()
	v.Quiesce()
	v.Assert(e.sendPart("p", "", hp, size, 0, size, "P") == nil, "part received")
	v.Quiesce()
	v.FireTimers()
	v.Quiesce()
	v.Assert(v.FileIs(filepath.Join(e.final, "a"), "v1"), "C20/C06 the held file is delivered after the restart, once its predecessor has arrived")
	v.Reach("delivered")
}


// O2c: a file that is completely received but not yet validated (the validators
// have not come to it) and an old partial of the same version that the sender
// started over: nothing is known to be delivered yet, so cleaning must leave
// the partial (and the record) alone — the transfer that started over can then
// go on.
func H_C20_Unvalidated(v *verifrt.T) {
	size := v.Int64("size")
	v.Assume(size >= 2)
	v.Assume(size <= 4096)
	m := v.Int64("split")
	v.Assume(1 <= m)
	v.Assume(m < size)
	h1 := v.Version("v1", size)
	e := newEnv(v)
	v.Assert(e.sendPart("a", "", h1, size, 0, size, "v1") == nil, "C20 set-up: the file is received")
	// (no Quiesce: received, waiting for a validator)
	v.Assert(v.Exists(filepath.Join(e.stage, "a"+fullExt)), "C20 set-up: complete, not validated")
	// the sender starts over (it never got the answer): the first part again
	e.s.Prepare([]sts.Binned{&vBinned{name: "a", hash: h1, size: size, beg: 0, end: m, t: v.Now()}})
	part := filepath.Join(e.stage, "a.part")
	v.Assert(v.Exists(part), "C20 set-up: the partial of the repeated transfer")
	age := v.Duration("age", 0, 72*time.Hour)
	v.Assume(verifrt.Or(age+time.Minute <= 24*time.Hour, age >= 24*time.Hour+time.Minute))
	v.SetAge(part, age)
	e.s.cleanStrays(24 * time.Hour)
	v.Assert(v.Exists(part), "C20.O1 a partial is removed only if that version was delivered or logged — not while it is merely received")
	// the repeated transfer goes on
	v.Assert(e.sendPart("a", "", h1, size, 0, m, "v1") == nil, "C20.O2 the transfer that started over can go on after the cleaning")
	v.Reach("cleaned")
}
