//go:build verif

package stage

// C09 — the receiver's record of partly received files is sound.
// Harnesses for the range arithmetic of the companion record. All offsets are
// full-width symbolic int64; the number of ranges is bounded by Param N.

import (
	"github.com/arm-doe/sts"
	"github.com/arm-doe/sts/internal/verifrt"
)

func init() {
	verifrt.Register("H_C09_CompleteSound", H_C09_CompleteSound)
	verifrt.Register("H_C09_ExistsSound", H_C09_ExistsSound)
	verifrt.Register("H_C09_Retention", H_C09_Retention)
	verifrt.Register("H_C09_RecordInv", H_C09_RecordInv)
}

// covered: is x inside one of the ranges (non-forking oracle)
func c09covered(parts [][2]int64, x int64) bool {
	cov := false
	for _, p := range parts {
		cov = verifrt.Or(cov, verifrt.And(p[0] <= x, x < p[1]))
	}
	return cov
}

// O1: isCompanionComplete ⇒ every byte of [0,size) lies in a recorded range,
// for an arbitrary list (no order assumed) of ≤ N non-empty ranges.
func H_C09_CompleteSound(v *verifrt.T) {
	n := v.Param("N", 4)
	k := v.Choose("nparts", n+1)
	size := v.Int64("size")
	v.Assume(size > 0)
	cmp := &sts.Partial{Size: size}
	var parts [][2]int64
	for i := 0; i < k; i++ {
		b, e := v.Int64("beg"), v.Int64("end")
		v.Assume(0 <= b)
		v.Assume(b < e)
		cmp.Parts = append(cmp.Parts, &sts.ByteRange{Beg: b, End: e})
		parts = append(parts, [2]int64{b, e})
	}
	x := v.Int64("x")
	v.Assume(0 <= x)
	v.Assume(x < size)
	if isCompanionComplete(cmp) {
		v.Reach("complete")
		v.Assert(c09covered(parts, x), "C09.O1 complete implies every byte is in a recorded range")
	} else {
		v.Reach("incomplete")
	}
}

// c09overlapTrigger: some pair of added ranges intersects without being identical
func c09overlapTrigger(parts [][2]int64) bool {
	t := false
	for i := range parts {
		for j := i + 1; j < len(parts); j++ {
			inter := verifrt.And(parts[i][0] < parts[j][1], parts[j][0] < parts[i][1])
			same := verifrt.And(parts[i][0] == parts[j][0], parts[i][1] == parts[j][1])
			t = verifrt.Or(t, verifrt.And(inter, verifrt.Not(same)))
		}
	}
	return t
}

// O2: after any ≤ N addCompanionPart calls from the empty record,
// companionPartExists(q) ⇒ every byte of q was in some added range.
func H_C09_ExistsSound(v *verifrt.T) {
	n := v.Param("N", 4)
	k := v.Choose("nadds", n+1)
	size := v.Int64("size")
	v.Assume(size > 0)
	v.Assume(size <= int64(1)<<uint(v.Param("SIZEBITS", 62)))
	cmp := &sts.Partial{Size: size}
	var parts [][2]int64
	for i := 0; i < k; i++ {
		b, e := v.Int64("beg"), v.Int64("end")
		v.Assume(0 <= b)
		v.Assume(b < e)
		v.Assume(e <= size)
		parts = append(parts, [2]int64{b, e})
		addCompanionPart(cmp, b, e)
	}
	qb, qe, x := v.Int64("qbeg"), v.Int64("qend"), v.Int64("x")
	v.Assume(0 <= qb)
	v.Assume(qb < qe)
	v.Assume(qe <= size)
	v.Assume(qb <= x)
	v.Assume(x < qe)
	if companionPartExists(cmp, qb, qe) {
		v.Reach("exists")
		v.AssertKF(c09covered(parts, x), "C09.O2 a range claimed as held was received byte for byte",
			"KF-C09-exists-overlap", c09overlapTrigger(parts))
	} else {
		v.Reach("not-exists")
	}
}

// O3: one more addCompanionPart never uncovers a byte that the record covered.
// The record before the call is any record reachable by ≤ N-1 adds.
func H_C09_Retention(v *verifrt.T) {
	n := v.Param("N", 4)
	k := v.Choose("nadds", n)
	size := v.Int64("size")
	v.Assume(size > 0)
	cmp := &sts.Partial{Size: size}
	var parts [][2]int64
	for i := 0; i < k; i++ {
		b, e := v.Int64("beg"), v.Int64("end")
		v.Assume(0 <= b)
		v.Assume(b < e)
		v.Assume(e <= size)
		parts = append(parts, [2]int64{b, e})
		addCompanionPart(cmp, b, e)
	}
	x := v.Int64("x")
	v.Assume(0 <= x)
	v.Assume(x < size)
	var before [][2]int64
	for _, p := range cmp.Parts {
		before = append(before, [2]int64{p.Beg, p.End})
	}
	was := c09covered(before, x)
	b, e := v.Int64("beg"), v.Int64("end")
	v.Assume(0 <= b)
	v.Assume(b < e)
	v.Assume(e <= size)
	parts = append(parts, [2]int64{b, e})
	addCompanionPart(cmp, b, e)
	var after [][2]int64
	for _, p := range cmp.Parts {
		after = append(after, [2]int64{p.Beg, p.End})
	}
	v.Reach("added")
	v.AssertKF(verifrt.Implies(was, c09covered(after, x)), "C09.O3 an acknowledged byte stays on record",
		"KF-C09-replace-overlap", c09overlapTrigger(parts))
	// the new range itself is on record afterwards
	v.Assert(verifrt.Implies(verifrt.And(b <= x, x < e), c09covered(after, x)), "C09.O3 the added range is on record")
}

// O4: for well-formed senders (added ranges pairwise disjoint or identical) the
// record stays ascending and disjoint — the invariant the sender's gap
// computation (C07) relies on — and covers exactly the union of what was added.
func H_C09_RecordInv(v *verifrt.T) {
	n := v.Param("N", 4)
	k := v.Choose("nadds", n+1)
	size := v.Int64("size")
	v.Assume(size > 0)
	cmp := &sts.Partial{Size: size}
	var parts [][2]int64
	for i := 0; i < k; i++ {
		b, e := v.Int64("beg"), v.Int64("end")
		v.Assume(0 <= b)
		v.Assume(b < e)
		v.Assume(e <= size)
		parts = append(parts, [2]int64{b, e})
		v.Assume(verifrt.Not(c09overlapTrigger(parts)))
		addCompanionPart(cmp, b, e)
	}
	x := v.Int64("x")
	v.Assume(0 <= x)
	v.Assume(x < size)
	v.Reach("built")
	sorted := true
	for i := 1; i < len(cmp.Parts); i++ {
		sorted = verifrt.And(sorted, cmp.Parts[i-1].End <= cmp.Parts[i].Beg)
	}
	v.Assert(sorted, "C09.O4 record ascending and disjoint")
	var rec [][2]int64
	for _, p := range cmp.Parts {
		rec = append(rec, [2]int64{p.Beg, p.End})
	}
	v.Assert(c09covered(rec, x) == c09covered(parts, x), "C09.O4 record covers exactly the added bytes")
}
