//go:build verif

package stage

// Shared harness pieces for the stage checks: an exact reference receive
// logger (M-LOGGER; the real log.FileIO is checked against the same
// specification under C18) and helpers to drive Prepare/Receive.

import (
	"os"
	"path/filepath"
	"time"

	"github.com/arm-doe/sts"
	"github.com/arm-doe/sts/internal/verifrt"
)

type vRecord struct {
	name, renamed, hash string
	size                int64
	old                 bool      // logged 10 days before "now" (outside the window a restart reloads)
	t                   time.Time // when it was logged
}

func (l *vLogger) visible(r vRecord, after time.Time) bool {
	t := r.t
	if r.old {
		t = l.v.Now().Add(-10 * 24 * time.Hour)
	}
	if t.IsZero() {
		return true
	}
	return !t.Before(after)
}

// vLogger answers exactly: a record matches iff name (and hash, when given)
// are equal and the record is not marked old.
type vLogger struct {
	v       *verifrt.T
	records []vRecord
	// onReceived is called at the moment a file is logged (ordering oracles)
	onReceived func(name string)
	// onParse is called whenever the stage replays the log
	onParse func()
	// onSearch is called when the stage starts a log search (which, in the real
	// logger, reads day files without any stage lock held): a harness can let
	// other things happen "while the search is in progress"
	onSearch func(name string)
}

func (l *vLogger) Received(f sts.Received) {
	l.records = append(l.records, vRecord{name: f.GetName(), renamed: f.GetRenamed(), hash: f.GetHash(), size: f.GetSize(), t: l.v.Now()})
	if l.onReceived != nil {
		l.onReceived(f.GetName())
	}
}

func (l *vLogger) WasReceived(name, hash string, after, before time.Time) bool {
	if l.onSearch != nil {
		l.onSearch(name)
	}
	for _, r := range l.records {
		if l.visible(r, after) && r.name == name && (hash == "" || r.hash == hash) {
			return true
		}
	}
	return false
}

func (l *vLogger) Parse(handler func(name, renamed, hash string, size int64, t time.Time) bool, after, before time.Time) bool {
	if l.onParse != nil {
		l.onParse()
	}
	for _, r := range l.records {
		if !l.visible(r, after) {
			continue
		}
		t := r.t
		if r.old {
			t = l.v.Now().Add(-10 * 24 * time.Hour)
		}
		if t.IsZero() {
			t = l.v.Now().Add(-time.Minute) // records given by the harness: logged a moment ago
		}
		if handler(r.name, r.renamed, r.hash, r.size, t) {
			return true
		}
	}
	return false
}

func (l *vLogger) count(name, hash string) int {
	n := 0
	for _, r := range l.records {
		if r.name == name && (hash == "" || r.hash == hash) {
			n++
		}
	}
	return n
}

// vBinned is a part descriptor as the request decoder hands it to the stage.
type vBinned struct {
	name, renamed, prev, hash string
	size, beg, end            int64
	t                         time.Time
}

func (b *vBinned) GetName() string          { return b.name }
func (b *vBinned) GetRenamed() string       { return b.renamed }
func (b *vBinned) GetPrev() string          { return b.prev }
func (b *vBinned) GetFileTime() time.Time   { return b.t }
func (b *vBinned) GetFileHash() string      { return b.hash }
func (b *vBinned) GetFileSize() int64       { return b.size }
func (b *vBinned) GetSendSize() int64       { return b.size }
// like payload.fileMeta (what the request decoder produces): (Beg, End)
func (b *vBinned) GetSlice() (int64, int64) { return b.beg, b.end }

type vEnv struct {
	v      *verifrt.T
	root   string
	stage  string
	final  string
	logger *vLogger
	s      *Stage
}

func newEnv(v *verifrt.T) *vEnv {
	root := v.TempRoot()
	e := &vEnv{v: v, root: root, stage: filepath.Join(root, "stage"), final: filepath.Join(root, "final"), logger: &vLogger{v: v}}
	e.s = New("src", e.stage, e.final, e.logger, nil, nil)
	return e
}

// restart models a receiver restart: a new Stage over the same directories
// and the same log, followed by recovery.
func (e *vEnv) restart() {
	e.v.KillProcess()
	e.s = New("src", e.stage, e.final, e.logger, nil, nil)
	e.s.Recover()
	e.v.Quiesce()
}

// sendPart performs what the data route does for one part: Prepare + Receive.
// The bytes delivered are bytes [beg,end) of content tag src.
func (e *vEnv) sendPart(name, prev, hash string, size, beg, end int64, src string) error {
	b := &vBinned{name: name, prev: prev, hash: hash, size: size, beg: beg, end: end, t: e.v.Now()}
	e.s.Prepare([]sts.Binned{b})
	p := &sts.Partial{Name: name, Prev: prev, Size: size, Hash: hash, Source: "src",
		Parts: []*sts.ByteRange{{Beg: beg, End: end}}}
	return e.s.Receive(p, e.v.Reader(src, beg, end-beg))
}

// emptyDir removes the files of a directory (harness set-up).
func emptyDir(v *verifrt.T, dir string) {
	for _, f := range v.Files(dir) {
		os.Remove(filepath.Join(dir, f))
	}
}

func osRemoveFile(p string) { os.Remove(p) }
