//go:build verif

package stage

// C06 — a receiver crash at any point loses nothing and delivers nothing
// unvalidated. Every file-system call of the receive -> validate -> log ->
// move sequence is a crash point (decision over k).

import (
	"os"
	"path/filepath"
	"strings"
	"time"

	"github.com/arm-doe/sts"
	"github.com/arm-doe/sts/internal/verifrt"
)

func init() {
	verifrt.Register("H_C06_Crash", H_C06_Crash)
}

// vDiskLogger is an exact receive logger whose records are durable: one line
// per record in <root>/recv.log (so the log append is a crash point like any
// other file-system call and survives in the crash image).
type vDiskLogger struct {
	v    *verifrt.T
	path string
}

func (l *vDiskLogger) Received(f sts.Received) {
	fh, err := os.OpenFile(l.path, os.O_APPEND|os.O_CREATE|os.O_WRONLY, 0o644)
	if err != nil {
		panic("reference logger: " + err.Error())
	}
	fh.WriteString(f.GetName() + "|" + f.GetHash() + "\n")
	fh.Close()
}

func (l *vDiskLogger) lines() [][2]string {
	b, err := os.ReadFile(l.path)
	if err != nil {
		return nil
	}
	var out [][2]string
	for _, ln := range strings.Split(string(b), "\n") {
		if p := strings.Split(ln, "|"); len(p) == 2 {
			out = append(out, [2]string{p[0], p[1]})
		}
	}
	return out
}

func (l *vDiskLogger) WasReceived(name, hash string, after, before time.Time) bool {
	for _, r := range l.lines() {
		if r[0] == name && (hash == "" || r[1] == hash) {
			return true
		}
	}
	return false
}

func (l *vDiskLogger) Parse(handler func(name, renamed, hash string, size int64, t time.Time) bool, after, before time.Time) bool {
	for _, r := range l.lines() {
		if handler(r[0], "", r[1], 0, l.v.Now().Add(-time.Minute)) {
			return true
		}
	}
	return false
}

func (l *vDiskLogger) count(name, hash string) int {
	n := 0
	for _, r := range l.lines() {
		if r[0] == name && r[1] == hash {
			n++
		}
	}
	return n
}

// One file sent in two parts (symbolic size and split point); the receiver
// dies immediately before its k-th file-system call (every k); a new receiver
// recovers; the sender resumes the way the real client does — it asks which
// parts are held and sends the others again — and polls.
func H_C06_Crash(v *verifrt.T) {
	size := v.Int64("size")
	v.Assume(size >= 2)
	v.Assume(size <= 4096)
	m := v.Int64("split")
	v.Assume(m >= 1)
	v.Assume(m < size)
	h1 := v.Version("v1", size)
	k := 1 + v.Choose("crash-before-fs-call", v.Param("MAXK", 40))
	held := v.Param("HELD", 0) == 1 && v.Choose("file-has-predecessor", 2) == 1
	prev := ""
	if held {
		prev = "p"
	}
	var e *vEnv
	root := v.TempRoot()
	dlog := &vDiskLogger{v: v, path: filepath.Join(root, "recv.log")}
	mkEnv := func() {
		e = &vEnv{v: v, root: root, stage: filepath.Join(root, "stage"), final: filepath.Join(root, "final"), logger: &vLogger{v: v}}
		e.s = New("src", e.stage, e.final, dlog, nil, nil)
	}
	dup := 0 // 1: the whole file is sent once more, 2: only its first part
	if v.Param("DUP", 0) == 1 {
		dup = v.Choose("retransmission", 3)
	}
	// what the sender has been told by a status poll before the crash: a
	// positive answer makes it mark the file done (and delete it), so it will
	// not help any more after the crash
	told := sts.ConfirmNone
	lateDup := dup >= 1 && v.Choose("retransmission-arrives-after-the-poll", 2) == 1
	crashed := v.RunUntilCrash(k, func() {
		mkEnv()
		e.sendPart("a", prev, h1, size, 0, m, "v1")
		e.sendPart("a", prev, h1, size, m, size, "v1")
		v.Quiesce()
		if lateDup {
			told = e.s.GetFileStatus("a", v.Now())
		}
		if dup >= 1 {
			// lost answer: the sender transmits the file once more (and may
			// itself stop after the first part)
			e.sendPart("a", prev, h1, size, 0, m, "v1")
			if dup == 1 {
				e.sendPart("a", prev, h1, size, m, size, "v1")
			}
			v.Quiesce()
		}
	})
	told = v.Observed("sender-was-told", told)
	reportedBefore := sts.ConfirmNone
	if !crashed {
		v.Reach("no-crash")
		v.Assert(held || v.FileIs(filepath.Join(e.final, "a"), "v1"), "C06 without a crash the file is delivered")
		// the process dies when it is idle, after everything above was done
		// and answered: what the sender has been told must survive the restart
		reportedBefore = e.s.GetFileStatus("a", v.Now())
		v.KillProcess()
	} else {
		v.Reach("crashed")
	}
	// restart (optionally the recovering receiver dies as well, before its
	// k2-th file-system call, and a third receiver recovers)
	boot := func() {
		mkEnv()
		e.s.Recover()
		v.Quiesce()
	}
	crashes := 1
	if v.Param("CRASH2", 0) == 1 {
		k2 := 1 + v.Choose("second-crash-before-fs-call", v.Param("MAXK2", 20))
		if v.RunUntilCrash(k2, boot) {
			v.Reach("crashed-twice")
			crashes = 2
			boot()
		}
	} else {
		boot()
	}
	if reportedBefore == sts.ConfirmPassed || reportedBefore == sts.ConfirmWaiting {
		after := e.s.GetFileStatus("a", v.Now())
		v.Assert(after == sts.ConfirmPassed || after == sts.ConfirmWaiting, "C06 nothing that was reported as validated is lost by a restart")
		v.Reach("restart-when-idle")
	}
	// nothing unvalidated is delivered by recovery
	for _, f := range v.Files(e.final) {
		if !strings.HasSuffix(f, ".lck") {
			v.Assert(f == "a" && v.FileIs(filepath.Join(e.final, f), "v1"), "C06 recovery delivers nothing that is not the validated version")
		}
	}
	// the downstream consumer takes what has been delivered so far
	deliveredEarly := v.Exists(filepath.Join(e.final, "a"))
	if deliveredEarly {
		os.Remove(filepath.Join(e.final, "a"))
		v.Reach("delivered-before-resumption")
	}
	// the sender resumes: ask, re-send what is not held, poll — unless it had
	// been told before the crash that the file is validated
	parts := [][2]int64{{0, m}, {m, size}}
	if told == sts.ConfirmPassed || told == sts.ConfirmWaiting {
		parts = nil
		v.Reach("sender-already-satisfied")
	}
	for _, p := range parts {
		q := []sts.Binned{&vBinned{name: "a", prev: prev, hash: h1, size: size, beg: p[0], end: p[1], t: v.Now().Add(-20 * 24 * 3600e9)}}
		if e.s.Received(q) == 0 {
			v.Assert(e.sendPart("a", prev, h1, size, p[0], p[1], "v1") == nil, "C06 a part the receiver does not hold can be sent again")
		}
	}
	v.Quiesce()
	if held {
		// the predecessor arrives now
		hp := v.Version("P", size)
		v.Assert(e.sendPart("p", "", hp, size, 0, size, "P") == nil, "part received")
		v.Quiesce()
	}
	v.FireTimers()
	v.Quiesce()
	v.Note("end: " + strings.Join(v.Files(root), " "))
	final := filepath.Join(e.final, "a")
	if deliveredEarly {
		v.Assert(!v.Exists(final), "C06 a file already logged and delivered is neither requested nor delivered again")
	} else {
		v.Assert(v.FileIs(final, "v1"), "C06 after recovery and resumption the file is delivered under its proper name, byte-identical")
	}
	for _, f := range v.Files(e.final) {
		v.Assert(f == "a" || f == "p", "C06 nothing but the delivered files is left in the final directory")
	}
	v.Assert(e.s.GetFileStatus("a", v.Now()) == sts.ConfirmPassed, "C06 the delivered file is confirmed")
	n := dlog.count("a", h1)
	v.Assert(n >= 1 && n <= 1+crashes, "C06 only a crash between logging and moving may repeat the log record (once per crash)")
}

