//go:build verif

package stage

// C06 — a receiver crash at any point loses nothing and delivers nothing
// unvalidated. Every file-system call of the receive -> validate -> log ->
// move sequence is a crash point (decision over k).

import (
	"path/filepath"
	"strings"

	"github.com/arm-doe/sts"
	"github.com/arm-doe/sts/internal/verifrt"
)

func init() {
	verifrt.Register("H_C06_Crash", H_C06_Crash)
}

// One file sent in two parts (symbolic size and split point); the receiver
// dies immediately before its k-th file-system call (every k); a new receiver
// recovers; the sender resumes the way the real client does — it asks which
// parts are held and sends the others again — and polls.
func H_C06_Crash(v *verifrt.T) {
	size := v.Int64("size")
	v.Assume(size >= 2)
	v.Assume(size <= 4096)
	m := v.Int64("split")
	v.Assume(m >= 1)
	v.Assume(m < size)
	h1 := v.Version("v1", size)
	k := 1 + v.Choose("crash-before-fs-call", v.Param("MAXK", 40))
	held := v.Param("HELD", 0) == 1 && v.Choose("file-has-predecessor", 2) == 1
	prev := ""
	if held {
		prev = "p"
	}
	var e *vEnv
	ackBefore := map[int]bool{}
	statusBefore := sts.ConfirmNone
	crashed := v.RunUntilCrash(k, func() {
		e = newEnv(v)
		if e.sendPart("a", prev, h1, size, 0, m, "v1") == nil {
			ackBefore[0] = true
		}
		if e.sendPart("a", prev, h1, size, m, size, "v1") == nil {
			ackBefore[1] = true
		}
		v.Quiesce()
		statusBefore = e.s.GetFileStatus("a", v.Now())
	})
	if !crashed {
		v.Reach("no-crash")
		v.Assert(held || v.FileIs(filepath.Join(e.final, "a"), "v1"), "C06 without a crash the file is delivered")
		return
	}
	v.Reach("crashed")
	// restart (optionally the recovering receiver dies as well, before its
	// k2-th file-system call, and a third receiver recovers)
	root := v.TempRoot()
	boot := func() {
		e = &vEnv{v: v, root: root, stage: filepath.Join(root, "stage"), final: filepath.Join(root, "final"), logger: &vLogger{v: v}}
		if logged(v, e) {
			// the receive log is durable: what was logged before the crash is in it
			e.logger.records = append(e.logger.records, vRecord{name: "a", hash: h1, size: size})
		}
		e.s = New("src", e.stage, e.final, e.logger, nil, nil)
		e.s.Recover()
		v.Quiesce()
	}
	wasLogged := logged(v, &vEnv{final: filepath.Join(root, "final")})
	if v.Param("CRASH2", 0) == 1 {
		k2 := 1 + v.Choose("second-crash-before-fs-call", v.Param("MAXK2", 20))
		if v.RunUntilCrash(k2, boot) {
			v.Reach("crashed-twice")
			boot()
		}
	} else {
		boot()
	}
	if wasLogged && e.logger.count("a", h1) == 0 {
		e.logger.records = append(e.logger.records, vRecord{name: "a", hash: h1, size: size})
	}
	// nothing unvalidated is delivered by recovery
	for _, f := range v.Files(e.final) {
		if !strings.HasSuffix(f, ".lck") {
			v.Assert(f == "a" && v.FileIs(filepath.Join(e.final, f), "v1"), "C06 recovery delivers nothing that is not the validated version")
		}
	}
	// the sender resumes: ask, re-send what is not held, poll
	parts := [][2]int64{{0, m}, {m, size}}
	for _, p := range parts {
		q := []sts.Binned{&vBinned{name: "a", prev: prev, hash: h1, size: size, beg: p[0], end: p[1], t: v.Now().Add(-20 * 24 * 3600e9)}}
		if e.s.Received(q) == 0 {
			v.Assert(e.sendPart("a", prev, h1, size, p[0], p[1], "v1") == nil, "C06 a part the receiver does not hold can be sent again")
		}
	}
	v.Quiesce()
	if held {
		// the predecessor arrives now
		hp := v.Version("P", size)
		v.Assert(e.sendPart("p", "", hp, size, 0, size, "P") == nil, "part received")
		v.Quiesce()
	}
	v.FireTimers()
	v.Quiesce()
	v.Note("end: " + strings.Join(v.Files(root), " "))
	final := filepath.Join(e.final, "a")
	v.Assert(v.FileIs(final, "v1"), "C06 after recovery and resumption the file is delivered under its proper name, byte-identical")
	for _, f := range v.Files(e.final) {
		v.Assert(f == "a" || f == "p", "C06 nothing but the delivered files is left in the final directory")
	}
	v.Assert(e.s.GetFileStatus("a", v.Now()) == sts.ConfirmPassed, "C06 the delivered file is confirmed")
	n := e.logger.count("a", h1)
	v.Assert(n >= 1 && n <= 2, "C06 only a crash between logging and moving may repeat the log record")
	_ = statusBefore
}

// logged: does the crash image show that the file had been logged before the
// crash? The reference logger lives in memory, so the harness reconstructs the
// durable log from the one externally visible effect that follows it: the move
// into the final directory (or its first half) has started.
func logged(v *verifrt.T, e *vEnv) bool {
	return v.Exists(filepath.Join(e.final, "a")) || v.Exists(filepath.Join(e.final, "a.lck"))
}
