//go:build verif

package stage

// C01 — content that does not match its announced hash is never delivered,
// also across a receiver restart at any point of its (failed) validation.

import (
	"path/filepath"
	"strings"

	"github.com/arm-doe/sts"
	"github.com/arm-doe/sts/internal/verifrt"
)

func init() {
	verifrt.Register("H_C01_CorruptRestart", H_C01_CorruptRestart)
	verifrt.Register("H_C01_SupersededLive", H_C01_SupersededLive)
	verifrt.Register("H_C01_Overtaken", H_C01_Overtaken)
}

// A file arrives completely but its bytes are not the announced version (a
// byte flipped in transit: same size, other content). The receiver dies
// immediately before its k-th file-system call (every k) or when idle after
// the failed validation; a new receiver recovers. Nothing may appear in the
// final directory, the file must not be confirmed; the sender then transmits
// the proper content and that is what gets delivered.
func H_C01_CorruptRestart(v *verifrt.T) {
	size := v.Int64("size")
	v.Assume(size >= 1)
	v.Assume(size <= 4096)
	h1 := v.Version("v1", size)
	v.Version("bad", size)
	k := 1 + v.Choose("crash-before-fs-call", v.Param("MAXK", 30))
	var e *vEnv
	root := v.TempRoot()
	dlog := &vDiskLogger{v: v, path: filepath.Join(root, "recv.log")}
	mkEnv := func() {
		e = &vEnv{v: v, root: root, stage: filepath.Join(root, "stage"), final: filepath.Join(root, "final"), logger: &vLogger{v: v}}
		e.s = New("src", e.stage, e.final, dlog, nil, nil)
	}
	crashed := v.RunUntilCrash(k, func() {
		mkEnv()
		e.sendPart("a", "", h1, size, 0, size, "bad")
		v.Quiesce()
	})
	if !crashed {
		v.Reach("no-crash")
		v.Assert(e.s.GetFileStatus("a", v.Now()) == sts.ConfirmFailed, "C01 content that does not match its announced hash is reported as failed")
		v.Assert(len(v.Files(e.final)) == 0, "C01 content that does not match its announced hash is never delivered")
		v.KillProcess()
	} else {
		v.Reach("crashed")
	}
	mkEnv()
	e.s.Recover()
	v.Quiesce()
	v.FireTimers()
	v.Quiesce()
	if !crashed {
		// the failure had been reported before the (idle) process died: it is
		// still reported after the restart, so that the sender transmits again
		// at once instead of polling until it gives up
		v.Assert(e.s.GetFileStatus("a", v.Now()) == sts.ConfirmFailed, "C01 content that failed validation is still reported as failed after a restart")
	}
	for _, f := range v.Files(e.final) {
		if !strings.HasSuffix(f, ".lck") {
			v.Assert(false, "C01 a restart never delivers content that does not match its announced hash")
		}
	}
	v.Assert(e.s.GetFileStatus("a", v.Now()) != sts.ConfirmPassed, "C01 a restart never confirms content that failed (or never had) validation")
	v.Assert(dlog.count("a", h1) == 0, "C01 nothing is logged as received for content that does not match its hash")
	// the sender transmits the file again
	q := []sts.Binned{&vBinned{name: "a", hash: h1, size: size, beg: 0, end: size, t: v.Now()}}
	if e.s.Received(q) == 0 {
		v.Assert(e.sendPart("a", "", h1, size, 0, size, "v1") == nil, "C01 the file can be transmitted again")
		v.Reach("retransmitted")
	}
	v.Quiesce()
	v.Assert(v.FileIs(filepath.Join(e.final, "a"), "v1"), "C01 after retransmission the delivered file is the announced version, byte for byte")
	v.Assert(e.s.GetFileStatus("a", v.Now()) == sts.ConfirmPassed, "C01 the retransmitted file is confirmed")
}

// A validated file held for its predecessor is superseded, while it waits, by a
// completely received newer version of the same name (same or other size); no
// restart. When the predecessor arrives, what is delivered under that name is
// byte-identical to the version whose hash the receive log states, every log
// record of the name describes bytes that were delivered under it, and the
// newer version is what ends up delivered.
func H_C01_SupersededLive(v *verifrt.T) {
	size1, size2 := v.Int64("size1"), v.Int64("size2")
	v.Assume(size1 >= 1)
	v.Assume(size1 <= 4096)
	v.Assume(size2 >= 1)
	v.Assume(size2 <= 4096)
	h1 := v.Version("v1", size1)
	h2 := v.Version("v2", size2)
	hA := v.Version("A", size1)
	e := newEnv(v)
	fb := filepath.Join(e.final, "b")
	// the consumer checks every delivery at the moment it is logged + moved:
	// here after each step
	var delivered []string
	check := func() {
		if v.Exists(fb) {
			n := len(e.logger.records)
			var last *vRecord
			for k := n - 1; k >= 0; k-- {
				if e.logger.records[k].name == "b" {
					last = &e.logger.records[k]
					break
				}
			}
			v.Assert(last != nil, "C01 a delivered file has a record in the receive log")
			if last != nil {
				tag := "v1"
				if last.hash == h2 {
					tag = "v2"
				}
				v.Assert(v.FileIs(fb, tag), "C01 the MD5 of a delivered file equals the hash written for it in the receive log")
				delivered = append(delivered, tag)
			}
			osRemoveFile(fb)
		}
	}
	v.Assert(e.sendPart("b", "a", h1, size1, 0, size1, "v1") == nil, "part received")
	v.Quiesce()
	v.Assert(v.Exists(filepath.Join(e.stage, "b"+waitExt)), "set-up: v1 of b is held waiting for a")
	v.Assert(e.sendPart("b", "a", h2, size2, 0, size2, "v2") == nil, "the newer version is received")
	v.Quiesce()
	check()
	v.Assert(len(delivered) == 0, "C04 b is not delivered before its predecessor a")
	v.Assert(e.sendPart("a", "", hA, size1, 0, size1, "A") == nil, "part received")
	v.Quiesce()
	check()
	v.FireTimers()
	v.Quiesce()
	check()
	v.Assert(len(delivered) >= 1 && delivered[len(delivered)-1] == "v2", "C01/C03 the newer version of the held file is what ends up delivered")
	for _, r := range e.logger.records {
		if r.name == "b" && r.hash == h1 {
			v.Assert(len(delivered) >= 2 && delivered[0] == "v1", "C01 a version is logged as received only if its bytes were delivered")
		}
	}
	v.Reach("released")
}

// A complete newer version of a name arrives while the complete older version
// is still waiting in the validation queue (no goroutine of the stage has run
// in between — the engine's scheduler lets the harness send both before the
// validators start): the staged body is the newer version's when the older
// entry is validated. Whatever is delivered is byte-identical to the version
// its log record states; and once the sender has re-sent what was reported as
// failed or unknown, the newer version is delivered.
func H_C01_Overtaken(v *verifrt.T) {
	size1, size2 := v.Int64("size1"), v.Int64("size2")
	v.Assume(size1 >= 1)
	v.Assume(size1 <= 4096)
	v.Assume(size2 >= 1)
	v.Assume(size2 <= 4096)
	h1 := v.Version("v1", size1)
	h2 := v.Version("v2", size2)
	e := newEnv(v)
	fa := filepath.Join(e.final, "a")
	v.Assert(e.sendPart("a", "", h1, size1, 0, size1, "v1") == nil, "part received")
	// (no Quiesce: the validators have not looked at version 1 yet)
	v.Assert(e.sendPart("a", "", h2, size2, 0, size2, "v2") == nil, "part received")
	v.Quiesce()
	check := func() {
		if !v.Exists(fa) {
			return
		}
		var last *vRecord
		for k := len(e.logger.records) - 1; k >= 0; k-- {
			if e.logger.records[k].name == "a" {
				last = &e.logger.records[k]
				break
			}
		}
		v.Assert(last != nil, "C01 a delivered file has a record in the receive log")
		if last != nil {
			tag := "v1"
			if last.hash == h2 {
				tag = "v2"
			}
			v.Assert(v.FileIs(fa, tag), "C01 the MD5 of a delivered file equals the hash written for it in the receive log")
			v.Assert(last.size == size1 && tag == "v1" || last.size == size2 && tag == "v2", "C01 the size written to the receive log is the delivered version's")
		}
	}
	check()
	v.Reach("validated")
	// the sender polls version 2 and transmits it again unless it is confirmed
	st := e.s.GetFileStatus("a", v.Now())
	if st != sts.ConfirmPassed && st != sts.ConfirmWaiting {
		osRemoveFile(fa)
		v.Assert(e.sendPart("a", "", h2, size2, 0, size2, "v2") == nil, "C01 a version reported as failed or unknown can be transmitted again")
		v.Quiesce()
		check()
		v.Reach("re-sent")
	}
	v.Assert(v.FileIs(fa, "v2"), "C01/C03 the newer version is what ends up delivered")
}
