//go:build verif

package stage

// C01 — content that does not match its announced hash is never delivered,
// also across a receiver restart at any point of its (failed) validation.

import (
	"path/filepath"
	"strings"

	"github.com/arm-doe/sts"
	"github.com/arm-doe/sts/internal/verifrt"
)

func init() {
	verifrt.Register("H_C01_CorruptRestart", H_C01_CorruptRestart)
}

// A file arrives completely but its bytes are not the announced version (a
// byte flipped in transit: same size, other content). The receiver dies
// immediately before its k-th file-system call (every k) or when idle after
// the failed validation; a new receiver recovers. Nothing may appear in the
// final directory, the file must not be confirmed; the sender then transmits
// the proper content and that is what gets delivered.
func H_C01_CorruptRestart(v *verifrt.T) {
	size := v.Int64("size")
	v.Assume(size >= 1)
	v.Assume(size <= 4096)
	h1 := v.Version("v1", size)
	v.Version("bad", size)
	k := 1 + v.Choose("crash-before-fs-call", v.Param("MAXK", 30))
	var e *vEnv
	root := v.TempRoot()
	dlog := &vDiskLogger{v: v, path: filepath.Join(root, "recv.log")}
	mkEnv := func() {
		e = &vEnv{v: v, root: root, stage: filepath.Join(root, "stage"), final: filepath.Join(root, "final"), logger: &vLogger{v: v}}
		e.s = New("src", e.stage, e.final, dlog, nil, nil)
	}
	crashed := v.RunUntilCrash(k, func() {
		mkEnv()
		e.sendPart("a", "", h1, size, 0, size, "bad")
		v.Quiesce()
	})
	if !crashed {
		v.Reach("no-crash")
		v.Assert(e.s.GetFileStatus("a", v.Now()) == sts.ConfirmFailed, "C01 content that does not match its announced hash is reported as failed")
		v.Assert(len(v.Files(e.final)) == 0, "C01 content that does not match its announced hash is never delivered")
		v.KillProcess()
	} else {
		v.Reach("crashed")
	}
	mkEnv()
	e.s.Recover()
	v.Quiesce()
	v.FireTimers()
	v.Quiesce()
	if !crashed {
		// the failure had been reported before the (idle) process died: it is
		// still reported after the restart, so that the sender transmits again
		// at once instead of polling until it gives up
		v.Assert(e.s.GetFileStatus("a", v.Now()) == sts.ConfirmFailed, "C01 content that failed validation is still reported as failed after a restart")
	}
	for _, f := range v.Files(e.final) {
		if !strings.HasSuffix(f, ".lck") {
			v.Assert(false, "C01 a restart never delivers content that does not match its announced hash")
		}
	}
	v.Assert(e.s.GetFileStatus("a", v.Now()) != sts.ConfirmPassed, "C01 a restart never confirms content that failed (or never had) validation")
	v.Assert(dlog.count("a", h1) == 0, "C01 nothing is logged as received for content that does not match its hash")
	// the sender transmits the file again
	q := []sts.Binned{&vBinned{name: "a", hash: h1, size: size, beg: 0, end: size, t: v.Now()}}
	if e.s.Received(q) == 0 {
		v.Assert(e.sendPart("a", "", h1, size, 0, size, "v1") == nil, "C01 the file can be transmitted again")
		v.Reach("retransmitted")
	}
	v.Quiesce()
	v.Assert(v.FileIs(filepath.Join(e.final, "a"), "v1"), "C01 after retransmission the delivered file is the announced version, byte for byte")
	v.Assert(e.s.GetFileStatus("a", v.Now()) == sts.ConfirmPassed, "C01 the retransmitted file is confirmed")
}
