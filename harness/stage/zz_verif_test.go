//go:build verif

package stage

import (
	"testing"

	"github.com/arm-doe/sts/internal/verifrt"
)

func TestVerifReplay(t *testing.T) { verifrt.RunReplay(func(s string) { t.Fatal(s) }) }
