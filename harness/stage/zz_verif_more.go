//go:build verif

package stage

// Further obligations (stage side) added after the first round of seeded
// changes: lock discipline, stale verdicts, name reuse with equal size, move
// faults, the waiting-loop cleaner.

import (
	"os"
	"path/filepath"
	"strings"
	"time"

	"github.com/arm-doe/sts"
	"github.com/arm-doe/sts/internal/verifrt"
)

func init() {
	verifrt.Register("H_C09_LockAudit", H_C09_LockAudit)
	verifrt.Register("H_C01_StaleVerdict", H_C01_StaleVerdict)
	verifrt.Register("H_C02_SameSize", H_C02_SameSize)
	verifrt.Register("H_C04_MoveFault", H_C04_MoveFault)
	verifrt.Register("H_C04_Cleaner", H_C04_Cleaner)
	verifrt.Register("H_C15_RecoverReady", H_C15_RecoverReady)
}

// H_C09_LockAudit (engine only): during a two-part transfer with validation
// and delivery, every access to the companion record and every rename / hash
// of the staged file happens while that file's path lock is held — the lock
// discipline that makes "parts arrive concurrently on several connections"
// safe. (The data write into .part is outside the lock by design.)
func H_C09_LockAudit(v *verifrt.T) {
	size := v.Int64("size")
	v.Assume(size >= 2)
	v.Assume(size <= 4096)
	m := v.Int64("split")
	v.Assume(1 <= m)
	v.Assume(m < size)
	h1 := v.Version("v1", size)
	e := newEnv(v)
	base := filepath.Join(e.stage, "a")
	audited := 0
	v.OnFS(func(op, path string) {
		if !strings.HasPrefix(path, base+".") {
			return
		}
		ext := path[len(base):]
		guarded := false
		switch {
		case strings.HasPrefix(ext, compExt):
			guarded = op != "stat"
		case ext == fullExt || ext == waitExt:
			guarded = op == "read" || op == "rename" || op == "open" || op == "remove"
		case ext == partExt:
			guarded = op == "rename" || op == "remove" || op == "truncate"
		}
		if !guarded {
			return
		}
		audited++
		e.s.pathLock.RLock()
		lock := e.s.pathLocks[base]
		e.s.pathLock.RUnlock()
		v.Assert(lock != nil && v.Held(lock), "C09 the companion record / staged file is only touched under the file's path lock ("+op+" "+ext+")")
	})
	v.Assert(e.sendPart("a", "", h1, size, 0, m, "v1") == nil, "part received")
	v.Assert(e.sendPart("a", "", h1, size, m, size, "v1") == nil, "part received")
	v.Quiesce()
	v.OnFS(nil)
	v.Assert(v.FileIs(filepath.Join(e.final, "a"), "v1"), "delivered")
	if audited > 0 {
		v.Reach("audited")
	}
}

// H_C01_StaleVerdict: an older version v0 of the name is in the receive log; a
// new version v1 arrives corrupted and fails validation; then a request that
// mentions an older file time makes the stage extend its cache from the log.
// The poll answer must stay 'failed' (so the sender transmits again) and
// nothing may be delivered.
func H_C01_StaleVerdict(v *verifrt.T) {
	size := v.Int64("size")
	v.Assume(size >= 1)
	v.Assume(size <= 4096)
	h0 := v.Version("v0", size)
	h1 := v.Version("v1", size)
	v.Version("junk", size)
	e := newEnv(v)
	e.logger.records = append(e.logger.records, vRecord{name: "a", hash: h0, size: size, old: true})
	v.Assert(e.sendPart("a", "", h1, size, 0, size, "junk") == nil, "part received")
	v.Quiesce()
	v.Assert(e.s.GetFileStatus("a", v.Now()) == sts.ConfirmFailed, "C01 a mismatch is reported failed")
	// a data-recovery question about an old file extends the cache backwards
	old := v.Now().Add(-25 * 24 * time.Hour)
	e.s.Received([]sts.Binned{&vBinned{name: "zz", hash: "h-zz", size: 1, beg: 0, end: 1, t: old}})
	st := e.s.GetFileStatus("a", v.Now())
	v.Assert(st == sts.ConfirmFailed, "C01 content that failed validation stays reported as failed until it is sent again")
	v.Assert(len(v.Files(e.final)) == 0, "C01 nothing of a failed version is delivered")
	v.Reach("polled")
}

// H_C02_SameSize: version v1 of a is delivered; the name is reused for new
// content v2 of exactly the same size. v2 must be validated and delivered (not
// discarded as a duplicate of v1), and a positive poll answer must mean that
// the receiver holds v2.
func H_C02_SameSize(v *verifrt.T) {
	size := v.Int64("size")
	v.Assume(size >= 1)
	v.Assume(size <= 4096)
	h1 := v.Version("v1", size)
	h2 := v.Version("v2", size)
	e := newEnv(v)
	v.Assert(e.sendPart("a", "", h1, size, 0, size, "v1") == nil, "part received")
	v.Quiesce()
	final := filepath.Join(e.final, "a")
	v.Assert(v.FileIs(final, "v1"), "set-up: v1 delivered")
	if v.Choose("consumer-took-v1", 2) == 1 {
		os.Remove(final)
	}
	v.Assert(e.sendPart("a", "", h2, size, 0, size, "v2") == nil, "part received")
	v.Quiesce()
	st := e.s.GetFileStatus("a", v.Now())
	if st == sts.ConfirmPassed || st == sts.ConfirmWaiting {
		v.Reach("confirmed")
		v.Assert(v.FileIs(final, "v2") || v.FileIs(filepath.Join(e.stage, "a"+waitExt), "v2"),
			"C02 a positive answer after all bytes of a version were sent means the receiver holds that version validated")
		v.Assert(e.logger.count("a", h2) == 1, "C05 the new version is logged once")
	} else {
		v.Assert(st == sts.ConfirmNone || st == sts.ConfirmFailed, "poll answer in range")
	}
	v.Assert(v.FileIs(final, "v2"), "C01 a new version under a reused name is delivered")
}

// H_C04_MoveFault: the move of predecessor a into the final directory fails
// (an obstacle occupies its temporary name); successor b, validated in the
// meantime, must stay held; once the obstacle is gone a is delivered first.
func H_C04_MoveFault(v *verifrt.T) {
	size := v.Int64("size")
	v.Assume(size >= 1)
	v.Assume(size <= 4096)
	ha := v.Version("A", size)
	hb := v.Version("B", size)
	e := newEnv(v)
	obstacle := filepath.Join(e.final, "a.lck")
	os.MkdirAll(filepath.Join(obstacle, "x"), 0o755)
	order := []string{}
	e.logger.onReceived = func(name string) { order = append(order, name) }
	v.Assert(e.sendPart("a", "", ha, size, 0, size, "A") == nil, "part received")
	v.Quiesce()
	v.Assert(!v.Exists(filepath.Join(e.final, "a")), "set-up: the move of a failed")
	v.Assert(e.sendPart("b", "a", hb, size, 0, size, "B") == nil, "part received")
	v.Quiesce()
	v.Assert(!v.Exists(filepath.Join(e.final, "b")), "C04 a file is not delivered while its predecessor is still in staging")
	if v.Exists(filepath.Join(e.stage, "b"+waitExt)) {
		v.Reach("b-held")
	}
	os.RemoveAll(obstacle)
	v.FireTimers()
	v.Quiesce()
	v.FireTimers()
	v.Quiesce()
	v.Assert(v.FileIs(filepath.Join(e.final, "a"), "A"), "C04 the predecessor is delivered once the fault is gone")
	v.Assert(v.FileIs(filepath.Join(e.final, "b"), "B"), "C04 the successor follows")
	v.Reach("both-delivered")
}

// H_C04_Cleaner: a chain a <- b <- c with a missing: the periodic cleaner must
// not give up the order (no cycle); with a real cycle (a <- b, b <- a) it
// releases at least one file so delivery is not blocked for ever.
func H_C04_Cleaner(v *verifrt.T) {
	size := v.Int64("size")
	v.Assume(size >= 1)
	v.Assume(size <= 4096)
	ha := v.Version("A", size)
	hb := v.Version("B", size)
	hc := v.Version("C", size)
	e := newEnv(v)
	cyclic := v.Choose("cyclic", 2) == 1
	if cyclic {
		v.Assert(e.sendPart("a", "b", ha, size, 0, size, "A") == nil, "part received")
		v.Assert(e.sendPart("b", "a", hb, size, 0, size, "B") == nil, "part received")
		v.Quiesce()
		v.Assert(len(v.Files(e.final)) == 0, "set-up: both files of the cycle are held")
		e.s.CleanNow()
		v.Quiesce()
		e.s.CleanNow()
		v.Quiesce()
		v.FireTimers()
		v.Quiesce()
		v.Assert(len(v.Files(e.final)) >= 1, "C04 a cycle of predecessor references does not block delivery for ever")
		v.Reach("cycle-broken")
		return
	}
	v.Assert(e.sendPart("b", "a", hb, size, 0, size, "B") == nil, "part received")
	v.Assert(e.sendPart("c", "b", hc, size, 0, size, "C") == nil, "part received")
	v.Quiesce()
	e.s.CleanNow()
	v.Quiesce()
	v.Assert(len(v.Files(e.final)) == 0, "C04 the cleaner gives up the order only for cycles, not for a chain whose head is late")
	v.Assert(e.sendPart("a", "", ha, size, 0, size, "A") == nil, "part received")
	v.Quiesce()
	v.FireTimers()
	v.Quiesce()
	var seq []string
	for _, r := range e.logger.records {
		seq = append(seq, r.name)
	}
	v.Assert(len(seq) == 3 && seq[0] == "a" && seq[1] == "b" && seq[2] == "c", "C04 the chain is delivered in order")
	v.Reach("chain-delivered")
}

// H_C15_RecoverReady: while Recover runs the staging area answers 'not
// ready' — observed from inside recovery (the receive-log callbacks it makes),
// after a crash image that leaves a complete file to validate.
func H_C15_RecoverReady(v *verifrt.T) {
	size := v.Int64("size")
	v.Assume(size >= 1)
	v.Assume(size <= 4096)
	h1 := v.Version("v1", size)
	e := newEnv(v)
	v.Assert(e.sendPart("a", "", h1, size, 0, size, "v1") == nil, "part received")
	// the receiver dies before validation (no Quiesce): .full + .cmp stay
	v.KillProcess()
	seen := 0
	e.logger.onParse = func() {
		seen++
		v.Assert(!e.s.Ready(), "C15 the staging area is not ready while recovery runs")
	}
	e.logger.onReceived = func(string) {
		v.Assert(!e.s.Ready(), "C15 the staging area is not ready while recovery still validates and delivers")
	}
	e.s = New("src", e.stage, e.final, e.logger, nil, nil)
	v.Assert(e.s.Ready(), "ready before recovery starts")
	// schedule: either the recovery worker runs to completion as soon as it is
	// handed a file, or its hash pass is slow and everything else runs first
	v.YieldOnRead(v.Choose("slow-hash-pass", 2) == 1)
	e.s.Recover()
	v.YieldOnRead(false)
	ready := e.s.Ready()
	v.Assert(ready, "C15 ready again after recovery")
	// ... and at that moment recovery's own validation pass is over: no
	// completely received file is still waiting for (or in) its hash pass,
	// which new requests for the same name would race with
	for _, f := range v.Files(e.stage) {
		v.Assert(!strings.HasSuffix(f, ".full") && !strings.HasSuffix(f, ".part"), "C15 the staging area turns ready only after recovery has validated what it found")
	}
	v.Assert(seen > 0, "recovery consulted the log")
	v.Reach("recovered")
}

func init() {
	verifrt.Register("H_C08_Received", H_C08_Received)
}

// H_C08_Received (C08.O5): the answer to 'how many of these parts did you
// receive' counts leading parts only: with any subset of the two parts of a
// file on record, Received([p0,p1]) = n implies p0..p(n-1) are on record.
func H_C08_Received(v *verifrt.T) {
	size := v.Int64("size")
	v.Assume(size >= 2)
	v.Assume(size <= 4096)
	m := v.Int64("split")
	v.Assume(1 <= m)
	v.Assume(m < size)
	h1 := v.Version("v1", size)
	e := newEnv(v)
	have0 := v.Choose("first-part-on-record", 2) == 1
	have1 := v.Choose("second-part-on-record", 2) == 1
	if have0 {
		v.Assert(e.sendPart("a", "", h1, size, 0, m, "v1") == nil, "part received")
	}
	if have1 {
		v.Assert(e.sendPart("a", "", h1, size, m, size, "v1") == nil, "part received")
	}
	if have0 && have1 {
		v.Quiesce() // complete: validated and delivered
	}
	mt := v.Now().Add(-time.Hour)
	n := e.s.Received([]sts.Binned{
		&vBinned{name: "a", hash: h1, size: size, beg: 0, end: m, t: mt},
		&vBinned{name: "a", hash: h1, size: size, beg: m, end: size, t: mt},
	})
	want := 0
	if have0 {
		want = 1
		if have1 {
			want = 2
		}
	}
	v.Assert(n == want, "C08.O5 the receiver reports exactly the number of leading parts it has on record")
	v.Reach("answered")
	// the same question about a NEWER version of the name (other hash): nothing
	// of it has been received, whatever is known about the older version —
	// on record, or delivered and remembered
	h2 := v.Version("v2", size)
	n2 := e.s.Received([]sts.Binned{
		&vBinned{name: "a", hash: h2, size: size, beg: 0, end: m, t: mt},
		&vBinned{name: "a", hash: h2, size: size, beg: m, end: size, t: mt},
	})
	v.Assert(n2 == 0, "C08.O5 parts of a new version are not reported as received on the strength of an older version of that name")
}
