//go:build verif

package stage

// C05 — a delivery whose in-memory record has aged out is still known from the
// receive log (no restart involved).

import (
	"os"
	"path/filepath"
	"time"

	"github.com/arm-doe/sts"
	"github.com/arm-doe/sts/internal/verifrt"
)

func init() {
	verifrt.Register("H_C05_Aged", H_C05_Aged)
}

// A file is delivered and logged; more than 24 hours pass (symbolic amount) and
// the cache ageing pass (in production: every 1000th cached file) runs once or
// twice, so the delivery is known only from the log. The same version is then
// asked about and transmitted again (lost answer, poll give-up): it is answered
// as already received, confirmed, and neither delivered nor logged again.
func H_C05_Aged(v *verifrt.T) {
	e := newEnv(v)
	size := v.Int64("size")
	v.Assume(size >= 1)
	v.Assume(size <= 4096)
	h1 := v.Version("v1", size)
	// an earlier delivery of another file (the cache horizon starts there)
	if v.Choose("earlier-delivery", 2) == 1 {
		ho := v.Version("o", size)
		v.Assert(e.sendPart("o", "", ho, size, 0, size, "o") == nil, "part received")
		v.Quiesce()
		os.Remove(filepath.Join(e.final, "o"))
		passTime(v, e, v.Duration("gap", time.Minute, 12*time.Hour))
		v.Reach("after-an-earlier-delivery")
	}
	mtime := v.Now().Add(-time.Second)
	send := func() error {
		b := &vBinned{name: "a", hash: h1, size: size, beg: 0, end: size, t: mtime}
		e.s.Prepare([]sts.Binned{b})
		p := &sts.Partial{Name: "a", Size: size, Hash: h1, Source: "src", Parts: []*sts.ByteRange{{Beg: 0, End: size}}}
		return e.s.Receive(p, v.Reader("v1", 0, size))
	}
	v.Assert(send() == nil, "part received")
	v.Quiesce()
	v.Quiesce()
	final := filepath.Join(e.final, "a")
	v.Assert(v.FileIs(final, "v1"), "C05 the file is delivered")
	os.Remove(final) // the downstream consumer takes it
	mtime = mtime.Add(-passTime(v, e, cacheAgeLogged+v.Duration("extra-age", time.Second, 48*time.Hour)))
	for n := 1 + v.Choose("ageing-passes", 2); n > 0; n-- {
		e.s.cleanCache()
	}
	if e.s.fromCache(filepath.Join(e.stage, "a")) == nil {
		v.Reach("aged-out")
	}
	q := []sts.Binned{&vBinned{name: "a", hash: h1, size: size, beg: 0, end: size, t: mtime}}
	v.Assert(e.s.Received(q) == 1, "C05 a part of a delivered version is answered as already received, also when the delivery is known only from the log")
	v.Assert(e.s.GetFileStatus("a", mtime) == sts.ConfirmPassed, "C05 a delivered version is confirmed, also when the delivery is known only from the log")
	// the whole file is transmitted again without asking
	_ = send()
	v.Quiesce()
	v.FireTimers()
	v.Quiesce()
	v.Assert(!v.Exists(final), "C05 a delivered version is not delivered again after its in-memory record aged out")
	v.Assert(e.logger.count("a", h1) == 1, "C05 a delivered version is logged once")
}

// passTime lets d pass: on the model clock under the engine; natively (the
// real clock cannot be moved) every time stamp the receiver holds — cache
// entries, cache horizon, load batches, log records — is moved d into the past.
func passTime(v *verifrt.T, e *vEnv, d time.Duration) (shifted time.Duration) {
	if v.Symbolic() {
		v.Advance(d)
		return 0
	}
	shifted = d
	s := e.s
	s.cacheLock.Lock()
	defer s.cacheLock.Unlock()
	if !s.cacheTime.IsZero() {
		s.cacheTime = s.cacheTime.Add(-d)
	}
	for k := range s.cacheTimes {
		s.cacheTimes[k] = s.cacheTimes[k].Add(-d)
	}
	for _, f := range s.cache {
		f.time = f.time.Add(-d)
		if !f.logged.IsZero() {
			f.logged = f.logged.Add(-d)
		}
	}
	for k := range e.logger.records {
		if !e.logger.records[k].t.IsZero() {
			e.logger.records[k].t = e.logger.records[k].t.Add(-d)
		}
	}
	return shifted
}
