//go:build verif

package stage

// C01 — a newer version of a name is received and validated while the older,
// validated version's predecessor is being looked up in the receive log.

import (
	"path/filepath"

	"github.com/arm-doe/sts/internal/verifrt"
)

func init() {
	verifrt.Register("H_C01_SupersededDuringLookup", H_C01_SupersededDuringLookup)
}

// File a was delivered by an earlier run of the receiver (it is in the receive
// log, not in the cache). Version 1 of b, which follows a, arrives and is
// validated; the finalizer looks a up in the log. The log search reads files
// with no stage lock held, so anything may happen meanwhile: here version 2 of
// b (other content, same or other size) is received completely and validated
// before the search returns. Whatever is then delivered under the name b is
// byte-identical to the version whose hash its receive-log record states, and
// the newer version is what ends up delivered.
func H_C01_SupersededDuringLookup(v *verifrt.T) {
	size1, size2 := v.Int64("size1"), v.Int64("size2")
	v.Assume(size1 >= 1)
	v.Assume(size1 <= 4096)
	v.Assume(size2 >= 1)
	v.Assume(size2 <= 4096)
	h1 := v.Version("v1", size1)
	h2 := v.Version("v2", size2)
	hA := v.Version("A", size1)
	e := newEnv(v)
	e.logger.records = append(e.logger.records, vRecord{name: "a", hash: hA, size: size1})
	fb := filepath.Join(e.final, "b")
	searching := make(chan struct{}, 1)
	resume := make(chan struct{})
	first := true
	e.logger.onSearch = func(name string) {
		if first && name == "a" {
			first = false
			searching <- struct{}{}
			<-resume
		}
	}
	var delivered []string
	check := func() {
		if !v.Exists(fb) {
			return
		}
		var last *vRecord
		for k := len(e.logger.records) - 1; k >= 0; k-- {
			if e.logger.records[k].name == "b" {
				last = &e.logger.records[k]
				break
			}
		}
		v.Assert(last != nil, "C01 a delivered file has a record in the receive log")
		if last != nil {
			tag := "v1"
			if last.hash == h2 {
				tag = "v2"
			}
			v.Assert(v.FileIs(fb, tag), "C01 the MD5 of a delivered file equals the hash written for it in the receive log")
			delivered = append(delivered, tag)
		}
		osRemoveFile(fb)
	}
	v.Assert(e.sendPart("b", "a", h1, size1, 0, size1, "v1") == nil, "part received")
	<-searching
	v.Reach("lookup-in-progress")
	v.Assert(e.sendPart("b", "a", h2, size2, 0, size2, "v2") == nil, "the newer version is received")
	v.Quiesce()
	check()
	resume <- struct{}{}
	v.Quiesce()
	check()
	v.FireTimers()
	v.Quiesce()
	check()
	v.Assert(len(delivered) >= 1 && delivered[len(delivered)-1] == "v2", "C01/C03 the newer version is what ends up delivered")
	for _, r := range e.logger.records {
		if r.name == "b" && r.hash == h1 {
			v.Assert(len(delivered) >= 2 && delivered[0] == "v1", "C01 a version is logged as received only if its bytes were delivered")
		}
	}
	v.Reach("released")
}
