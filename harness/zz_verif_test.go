//go:build verif

package sts

import (
	"testing"

	"github.com/arm-doe/sts/internal/verifrt"
)

func TestVerifReplay(t *testing.T) { verifrt.RunReplay(func(s string) { t.Fatal(s) }) }
