//go:build verif

package payload

// C13 (framing kernel) — the encoder streams exactly each part's bytes and the
// part decoder never hands out a byte of its neighbour. One-step contracts
// from an arbitrary valid state; buffer lengths ≤ B, part bounds symbolic.

import (
	"errors"
	"io"

	"github.com/arm-doe/sts"
	"github.com/arm-doe/sts/internal/verifrt"
)

func init() {
	verifrt.Register("H_C13_DecoderStep", H_C13_DecoderStep)
	verifrt.Register("H_C13_EncoderStep", H_C13_EncoderStep)
	verifrt.Register("H_C13_EncoderShortSource", H_C13_EncoderShortSource)
}

// vStream is the request body as the part decoder sees it: it obeys the
// io.Reader contract (0 ≤ n ≤ len(p), bytes of the stream in order).
type vStream struct {
	v      *verifrt.T
	pos    int64
	asked  int
	maxReq int
	eof    bool
}

func (s *vStream) Read(p []byte) (int, error) {
	s.asked++
	if len(p) > s.maxReq {
		s.maxReq = len(p)
	}
	if len(p) == 0 {
		return 0, nil
	}
	n := s.v.Int("stream-n")
	s.v.Assume(n >= 0)
	s.v.Assume(n <= len(p))
	for j := 0; j < n; j++ {
		p[j] = verifrt.ContentByte("body", s.pos+int64(j))
	}
	s.pos += int64(n)
	if s.v.Choose("stream-err", 3) == 1 {
		s.eof = true
		return n, io.EOF
	}
	if n == 0 {
		return 0, errors.New("stream error")
	}
	return n, nil
}

// O2: PartDecoder.Read from any state pos < total: never asks the stream for
// more than the rest of the part, hands out only bytes of this part in order,
// reports io.EOF exactly when the part is exhausted.
func H_C13_DecoderStep(v *verifrt.T) {
	b := v.Param("B", 3)
	l := 1 + v.Choose("buflen", b)
	beg, end := v.Int64("beg"), v.Int64("end")
	v.Assume(0 <= beg)
	v.Assume(beg < end)
	v.Assume(end < 1<<40)
	total := end - beg
	pos := v.Int("pos")
	v.Assume(0 <= pos)
	v.Assume(int64(pos) < total)
	start := v.Int64("stream-pos")
	v.Assume(0 <= start)
	v.Assume(start < 1<<40)
	st := &vStream{v: v, pos: start}
	pd := &PartDecoder{meta: &fileMeta{Beg: beg, End: end}, stream: st, pos: pos}
	out := make([]byte, l)
	n, err := pd.Read(out)
	v.Reach("read")
	left := total - int64(pos)
	v.Assert(int64(st.maxReq) <= left, "C13.O2 the part reader never asks the stream for more than the rest of its part")
	v.Assert(st.asked == 1, "C13.O2 one stream read per call")
	v.Assert(n >= 0 && int64(n) <= left, "C13.O2 never more bytes than the part has left")
	v.Assert(pd.pos == pos+n, "C13.O2 position advances by the bytes handed out")
	for j := 0; j < l; j++ {
		if j < n {
			v.Assert(out[j] == verifrt.ContentByte("body", start+int64(j)), "C13.O2 bytes handed out are the stream's bytes in order")
		}
	}
	if int64(pd.pos) == total {
		v.Assert(err == io.EOF, "C13.O2 EOF exactly when the part is exhausted")
		v.Reach("part-end")
	} else if err == io.EOF {
		v.Assert(st.eof, "C13.O2 EOF before the end of the part only if the body ended early")
		v.Reach("early-eof")
	}
}

// vHandle is an open source file (sts.Readable) that may return short reads.
type vHandle struct {
	v      *verifrt.T
	pos    int64
	closed bool
	seeks  int
}

func (h *vHandle) Read(p []byte) (int, error) {
	if len(p) == 0 {
		return 0, nil
	}
	n := h.v.Int("file-n")
	h.v.Assume(n >= 1) // an unmodified file has the announced bytes
	h.v.Assume(n <= len(p))
	for j := 0; j < n; j++ {
		p[j] = verifrt.ContentByte("file", h.pos+int64(j))
	}
	h.pos += int64(n)
	return n, nil
}
func (h *vHandle) Seek(off int64, whence int) (int64, error) {
	h.seeks++
	h.pos = off
	return off, nil
}
func (h *vHandle) Close() error { h.closed = true; return nil }

type vPartFile struct{ vBinnable }

// O1: Encoder.Read(p) from any valid state (part index, progress): returns
// n ≥ 1 bytes that are exactly the source bytes [beg+progress, beg+progress+n)
// of the current part, n ≤ remaining; moves to the next part (opened and
// positioned at its first byte) exactly when the part is exhausted; io.EOF
// only after the last part.
func H_C13_EncoderStep(v *verifrt.T) {
	b := v.Param("B", 3)
	l := 1 + v.Choose("buflen", b)
	np := 1 + v.Choose("nparts", 2)
	cur := v.Choose("current-part", np)
	var handles []*vHandle
	real := NewBin(1<<50, func(sts.File) (sts.Readable, error) {
		h := &vHandle{v: v}
		handles = append(handles, h)
		return h, nil
	}, nil).(*Bin)
	var begs, ends []int64
	for i := 0; i < np; i++ {
		pb, pe := v.Int64("part-beg"), v.Int64("part-end")
		v.Assume(0 <= pb)
		v.Assume(pb < pe)
		v.Assume(pe < 1<<40)
		begs, ends = append(begs, pb), append(ends, pe)
		real.parts = append(real.parts, &part{Binnable: &vBinnable{name: string(rune('a' + i)), offset: 0, length: pe}, beg: pb, end: pe})
	}
	enc := NewEncoder(real)
	// arbitrary valid state: positioned inside part cur with some progress
	progress := v.Int64("progress")
	v.Assume(0 <= progress)
	v.Assume(progress < ends[cur]-begs[cur])
	h := &vHandle{v: v, pos: begs[cur] + progress}
	handles = append(handles, h)
	enc.binPart = real.parts[cur]
	enc.partIndex = cur + 1
	enc.partProgress = progress
	enc.handle = h
	buf := make([]byte, l)
	n, err := enc.Read(buf)
	v.Reach("read")
	left := ends[cur] - begs[cur] - progress
	v.Assert(n >= 1, "C13.O1 a read returns at least one byte")
	v.Assert(int64(n) <= left, "C13.O1 never more than the part has left")
	for j := 0; j < l; j++ {
		if j < n {
			v.Assert(buf[j] == verifrt.ContentByte("file", begs[cur]+progress+int64(j)), "C13.O1 exactly the part's bytes, in order")
		}
	}
	if int64(n) == left {
		v.Reach("part-exhausted")
		if cur+1 < np {
			v.Assert(err == nil, "C13.O1 no EOF before the last part")
			v.Assert(enc.binPart == real.parts[cur+1] && enc.partProgress == 0, "C13.O1 the next part is started")
			v.Assert(len(handles) == 2 && handles[1].pos == begs[cur+1] && handles[1].seeks == 1, "C13.O1 the next part's file is opened and positioned at its first byte")
			v.Assert(h.closed, "C13.O1 the finished part's file is closed")
		} else {
			v.Assert(err == io.EOF, "C13.O1 EOF after the last part")
			v.Reach("bin-end")
		}
	} else {
		v.Assert(err == nil, "C13.O1 no error in the middle of a part")
		v.Assert(enc.binPart == real.parts[cur] && enc.partProgress == progress+int64(n), "C13.O1 progress advances by the bytes returned")
	}
}

// vShortHandle is a source file that got shorter after it was scanned: the
// read that hits its new end returns fewer bytes than asked, with io.EOF.
type vShortHandle struct {
	v      *verifrt.T
	closed bool
}

func (h *vShortHandle) Read(p []byte) (int, error) {
	n := h.v.Int("file-n")
	h.v.Assume(n >= 0)
	h.v.Assume(n < len(p))
	for j := 0; j < n; j++ {
		p[j] = verifrt.ContentByte("file", int64(j))
	}
	return n, io.EOF
}
func (h *vShortHandle) Seek(off int64, whence int) (int64, error) { return off, nil }
func (h *vShortHandle) Close() error                              { h.closed = true; return nil }

// O1b: framing when the source file is shorter than announced (it was
// truncated after the scan): the header promises end-beg bytes for the part, so
// the body must carry exactly that many before the next part begins — whatever
// their content (the receiver's hash check then fails this one file) — or the
// request must be aborted with an error; a part that silently contributes
// fewer bytes shifts every following part onto its neighbour's bytes.
func H_C13_EncoderShortSource(v *verifrt.T) {
	l := 1 + v.Choose("buflen", v.Param("B", 3))
	pb, pe := v.Int64("part-beg"), v.Int64("part-end")
	v.Assume(0 <= pb)
	v.Assume(pb < pe)
	v.Assume(pe < 1<<40)
	real := NewBin(1<<50, func(sts.File) (sts.Readable, error) { return &vHandle{v: v}, nil }, nil).(*Bin)
	real.parts = append(real.parts,
		&part{Binnable: &vBinnable{name: "a", offset: 0, length: pe}, beg: pb, end: pe},
		&part{Binnable: &vBinnable{name: "b", offset: 0, length: 4}, beg: 0, end: 4})
	enc := NewEncoder(real)
	progress := v.Int64("progress")
	v.Assume(0 <= progress)
	v.Assume(progress < pe-pb)
	enc.binPart = real.parts[0]
	enc.partIndex = 1
	enc.partProgress = progress
	enc.handle = &vShortHandle{v: v}
	buf := make([]byte, l)
	n, err := enc.Read(buf)
	left := pe - pb - progress
	if err != nil && err != io.EOF {
		v.Reach("aborted")
		return
	}
	v.Reach("read")
	v.Assert(int64(n) <= left, "C13.O1 never more than the part has left")
	if enc.binPart != real.parts[0] {
		v.Reach("moved-on")
		v.Assert(int64(n) == left, "C13 a part contributes exactly end-beg bytes to the body before the next part begins, also when its source file got shorter")
	}
}
