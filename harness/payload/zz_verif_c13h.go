//go:build verif

package payload

// C13 — the descriptor list through the real EncodeHeader and the real
// NewDecoder (length-limited pipe, JSON decoder, separator mapping).

import (
	"io"
	"strings"
	"time"

	"github.com/arm-doe/sts/internal/verifrt"
)

func init() {
	verifrt.Register("H_C13_Header", H_C13_Header)
}

type vDescFile struct {
	name, prev, hash string
	size             int64
	time             time.Time
}

func (f *vDescFile) GetPath() string              { return "/out/" + f.name }
func (f *vDescFile) GetName() string              { return f.name }
func (f *vDescFile) GetSize() int64               { return f.size }
func (f *vDescFile) GetTime() time.Time           { return f.time }
func (f *vDescFile) GetMeta() []byte              { return nil }
func (f *vDescFile) GetHash() string              { return f.hash }
func (f *vDescFile) GetPrev() string              { return f.prev }
func (f *vDescFile) GetSlice() (int64, int64)     { return 0, f.size }
func (f *vDescFile) GetSendSize() int64           { return f.size }
func (f *vDescFile) GetNextAlloc() (int64, int64) { return f.size, f.size }
func (f *vDescFile) AddAlloc(n int64)             {}
func (f *vDescFile) IsAllocated() bool            { return true }

// vBody is the request body: the encoded header followed by the part bytes.
type vBody struct {
	head []byte
	rest int64
	pos  int64
}

func (b *vBody) Read(p []byte) (int, error) {
	if len(p) == 0 {
		return 0, nil
	}
	if len(b.head) > 0 {
		n := copy(p, b.head)
		b.head = b.head[n:]
		return n, nil
	}
	if b.rest == 0 {
		return 0, io.EOF
	}
	n := int64(len(p))
	if n > b.rest {
		n = b.rest
	}
	for j := int64(0); j < n; j++ {
		p[j] = verifrt.ContentByte("body", b.pos+j)
	}
	b.pos += n
	b.rest -= n
	return int(n), nil
}

// Two parts, the second the successor of the first (its predecessor name IS
// the first part's name, as the queue produces it). The first name is a
// symbolic-byte string in the sender's path convention (separator '/' or
// '\\'), sizes / ranges / hash bytes symbolic. The real EncodeHeader output is
// fed through the real NewDecoder. Asserted: both descriptors come back in
// order with hash, size, range and rename unchanged; the predecessor of part 2
// decodes to exactly what the name of part 1 decodes to (otherwise in-order
// delivery can never find it); a name without separators is unchanged and a
// plain two-segment name is re-joined with the receiver's separator; then each
// part reader hands out exactly its end-beg bytes of the body, in order.
func H_C13_Header(v *verifrt.T) {
	l := v.Param("L", 3)
	sep := []string{"/", "\\"}[v.Choose("sender-separator", 2)]
	name1 := v.Bytes("name", 1+v.Choose("len", l))
	hash := v.Bytes("hash", 2)
	size1, beg1, end1 := v.Int64("size"), v.Int64("beg"), v.Int64("end")
	v.Assume(0 <= beg1)
	v.Assume(beg1 < end1)
	v.Assume(end1 <= size1)
	v.Assume(end1-beg1 <= 3)
	v.Assume(size1 < 1<<40)
	name2 := "d" + sep + "g"
	bin := NewBin(1<<50, nil, nil).(*Bin)
	bin.parts = append(bin.parts,
		&part{Binnable: &vDescFile{name: name1, hash: hash, size: size1}, beg: beg1, end: end1, renamed: "r" + sep + "n"},
		&part{Binnable: &vDescFile{name: name2, prev: name1, hash: "h2", size: 2}, beg: 0, end: 2})
	head, err := bin.EncodeHeader()
	if err != nil {
		v.Assert(false, "C13 the header is encoded without error")
		return
	}
	body := &vBody{head: head, rest: (end1 - beg1) + 2}
	dec, err := NewDecoder(len(head), sep, body)
	v.Assert(err == nil, "C13 a well-formed header is decoded without error")
	if err != nil {
		return
	}
	parts := dec.GetParts()
	if len(parts) != 2 {
		v.Assert(false, "C13 the decoder returns as many descriptors as were encoded")
		return
	}
	v.Reach("decoded")
	p1, p2 := parts[0], parts[1]
	b1, e1 := p1.GetSlice()
	v.Assert(p1.GetFileHash() == hash && p1.GetFileSize() == size1 && b1 == beg1 && e1 == end1, "C13 hash, size and byte range of a part are decoded as encoded")
	v.Assert(p1.GetRenamed() == "r"+sep+"n", "C13 the rename target is decoded as encoded")
	v.Assert(p2.GetFileHash() == "h2" && p2.GetFileSize() == 2, "C13 the second descriptor follows the first")
	v.Assert(p2.GetName() == "d/g", "C13 a two-segment name is re-joined with the receiver's separator")
	v.Assert(p2.GetPrev() == p1.GetName(), "C13 the predecessor of a part decodes to the decoded name of that predecessor")
	plain := true
	for k := 0; k < len(name1); k++ {
		c := name1[k]
		plain = verifrt.And(plain, verifrt.And(c != '/', verifrt.And(c != '\\', c != '.')))
	}
	v.Assert(verifrt.Implies(plain, p1.GetName() == name1), "C13 a name without separators or dots is decoded unchanged")
	if sep == "\\" {
		v.Reach("foreign-separator")
	}
	// the part readers: exactly the bytes of each part, in order
	off := int64(0)
	for k := 0; k < 2; k++ {
		r, eof := dec.Next()
		if eof {
			v.Assert(false, "C13 the decoder hands out a reader per part")
			return
		}
		want := int64(2)
		if k == 0 {
			want = end1 - beg1
		}
		buf := make([]byte, 4)
		got := int64(0)
		for round := 0; round < 6; round++ {
			n, err := r.Read(buf)
			for j := 0; j < n; j++ {
				v.Assert(buf[j] == verifrt.ContentByte("body", off+got+int64(j)), "C13 a part reader hands out the bytes of its own part, in order")
			}
			got += int64(n)
			if err != nil {
				break
			}
		}
		v.Assert(got == want, "C13 a part reader hands out exactly end-beg bytes, never a byte of its neighbour")
		off += got
	}
	_, eof := dec.Next()
	v.Assert(eof, "C13 no reader after the last part")
	_ = strings.Split
}
