//go:build verif

package payload

// C13 — "time to the nanosecond": the wire form of a file time.

import (
	"github.com/arm-doe/sts/internal/verifrt"
	"github.com/arm-doe/sts/marshal"
)

func init() {
	verifrt.Register("H_C13_Time", H_C13_Time)
}

// The real NanoTime.MarshalJSON ("sec+nsec", both printed with %d) followed by
// the real NanoTime.UnmarshalJSON (split on '+', ParseInt, time.Unix) for an
// arbitrary instant before or after the epoch: the decoded instant is the
// encoded one to the nanosecond. The decimal rendering of an integer is one
// opaque token of the symbolic string (printing and parsing an int64 in base
// 10 are inverse); seconds and nanoseconds are tied to the instant by
// ns = 1e9*sec + nsec, 0 <= nsec < 1e9.
func H_C13_Time(v *verifrt.T) {
	t := v.AnyTime("mtime")
	b, err := marshal.NanoTime{Time: t}.MarshalJSON()
	if err != nil {
		v.Assert(false, "C13 a file time is encoded without error")
		return
	}
	var t2 marshal.NanoTime
	err = t2.UnmarshalJSON(b)
	v.Assert(err == nil, "C13 an encoded file time is decoded without error")
	if err != nil {
		return
	}
	v.Reach("decoded")
	v.Assert(t2.Time.Equal(t), "C13 the decoded file time is the encoded one to the nanosecond")
}
