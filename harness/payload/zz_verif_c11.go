//go:build verif

package payload

// C11 / C08 — Bin.Add / IsFull / Split keep exact byte counts.

import (
	"time"

	"github.com/arm-doe/sts/internal/verifrt"
)

func init() {
	verifrt.Register("H_C11_Split", H_C11_Split)
}

type vBinnable struct {
	name      string
	offset    int64
	length    int64
	allocated int64
}

func (f *vBinnable) GetPath() string              { return "/out/" + f.name }
func (f *vBinnable) GetName() string              { return f.name }
func (f *vBinnable) GetSize() int64               { return f.offset + f.length }
func (f *vBinnable) GetTime() time.Time           { return time.Time{} }
func (f *vBinnable) GetMeta() []byte              { return nil }
func (f *vBinnable) GetHash() string              { return "h" }
func (f *vBinnable) GetPrev() string              { return "" }
func (f *vBinnable) GetSlice() (int64, int64)     { return f.offset, f.length }
func (f *vBinnable) GetSendSize() int64           { return f.offset + f.length }
func (f *vBinnable) GetNextAlloc() (int64, int64) { return f.offset + f.allocated, f.offset + f.length }
func (f *vBinnable) AddAlloc(n int64)             { f.allocated += n }
func (f *vBinnable) IsAllocated() bool            { return f.allocated == f.length }

// O4: a bin filled with P parts, split after n for every n: head ++ tail is
// the original part sequence and GetSize of each half is the sum of its parts.
func H_C11_Split(v *verifrt.T) {
	p := 1 + v.Choose("nparts", v.Param("P", 4))
	bin := NewBin(1<<52, nil, nil).(*Bin)
	var lens []int64
	total := int64(0)
	for i := 0; i < p; i++ {
		off, ln := v.Int64("off"), v.Int64("len")
		v.Assume(off >= 0)
		v.Assume(off < 1<<40)
		v.Assume(ln >= 1)
		v.Assume(ln < 1<<40)
		added := bin.Add(&vBinnable{name: string(rune('a' + i)), offset: off, length: ln})
		v.Assert(added, "C11.O4 a chunk that fits is added")
		lens = append(lens, ln)
		total += ln
	}
	v.Assert(bin.GetSize() == total, "C11.O4 bin size is the sum of its parts")
	orig := bin.GetParts()
	n := v.Choose("split", p+2) - 0
	tail := bin.Split(n)
	if n < 1 || n >= p {
		v.Assert(tail == nil, "C11.O4 split outside (0,len) returns nil")
		v.Assert(len(bin.GetParts()) == p, "C11.O4 a refused split leaves the bin alone")
		v.Assert(bin.GetSize() == total, "C11.O4 a refused split keeps the size")
		v.Reach("refused")
		return
	}
	v.Reach("split")
	hp, tp := bin.GetParts(), tail.GetParts()
	v.Assert(len(hp) == n && len(tp) == p-n, "C11.O4 split sizes")
	hs, tsz := int64(0), int64(0)
	for i := 0; i < p; i++ {
		if i < n {
			v.Assert(hp[i] == orig[i], "C11.O4 head keeps the leading parts in order")
			hs += lens[i]
		} else {
			v.Assert(tp[i-n] == orig[i], "C11.O4 tail holds the remaining parts in order")
			tsz += lens[i]
		}
	}
	v.Assert(bin.GetSize() == hs, "C11.O4 head size is the sum of its parts")
	v.Assert(tail.GetSize() == tsz, "C11.O4 tail size is the sum of its parts")
}
