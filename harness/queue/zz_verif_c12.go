//go:build verif

package queue

// C12 — strict priority between tags, round-robin among equal-priority
// groups, last-file delay. Bounded histories on the real queue.Tagged with
// symbolic priorities and symbolic file ages.

import (
	"time"

	"github.com/arm-doe/sts"
	"github.com/arm-doe/sts/internal/verifrt"
)

func init() {
	verifrt.Register("H_C12_History", H_C12_History)
}

type c12file struct {
	name      string
	remaining int64
	age       time.Duration // age at the start of the history
}

type c12group struct {
	name    string
	prio    int
	delay   time.Duration
	pending []*c12file
	known   bool // has the queue seen a file of this group
	nfiles  int
}

func H_C12_History(v *verifrt.T) {
	k := v.Param("K", 6)
	ng := v.Param("GROUPS", 3)
	useDelay := v.Param("DELAY", 1)
	const chunk = 10
	const maxAge = 48 * time.Hour
	var groups []*c12group
	var tags []*Tag
	for i := 0; i < ng; i++ {
		p := v.Int("prio")
		v.Assume(p >= -4)
		v.Assume(p <= 4)
		g := &c12group{name: string(rune('p' + i)), prio: p}
		if useDelay == 1 && i == 0 {
			// the first group's tag has a last-file delay
			g.delay = v.Duration("lastdelay", time.Minute, 24*time.Hour)
		}
		groups = append(groups, g)
		tags = append(tags, &Tag{Name: "tag-" + g.name, Priority: p, Order: sts.OrderNone, ChunkSize: chunk, LastDelay: g.delay})
	}
	q := NewTagged(tags,
		func(group string) string { return "tag-" + group },
		func(name string) string { return name[:1] })
	advanced := time.Duration(0)

	// ready: the group has a chunk the queue may emit now
	ready := func(g *c12group) bool {
		if len(g.pending) == 0 {
			return false
		}
		if g.delay > 0 && len(g.pending) == 1 {
			return g.pending[0].age+advanced >= g.delay
		}
		return true
	}
	// round-robin bookkeeping: since group a was last served, how often was b
	// served, and was b ready the whole time
	served := map[[2]int]int{}
	readyAll := map[[2]int]bool{}
	servedOnce := map[int]bool{}

	checkStructure := func() {
		n := 0
		var prev *sortedGroup
		for g := q.headGroup; g != nil && n <= ng+1; g = g.next {
			n++
			if prev != nil {
				v.Assert(prev.conf.Priority >= g.conf.Priority, "C12.O4 group list sorted by priority")
			}
			v.Assert(g.prev == prev, "C12.O4 group list doubly linked consistently")
			prev = g
		}
		want := 0
		for _, g := range groups {
			if g.known {
				want++
			}
		}
		v.Assert(n == want, "C12.O4 every group is in the list exactly once")
	}

	pops := 0
	pre := v.Param("PRE", 0)
	for step := -pre; step < k; step++ {
		var op int
		if step < 0 {
			op = step + pre // prologue: one file for each of the first PRE groups
		} else {
			op = v.Choose("op", ng+2)
		}
		switch {
		case op < ng:
			g := groups[op]
			if g.nfiles >= 2 {
				v.Assume(false) // bound: ≤ 2 files per group
			}
			g.nfiles++
			f := &c12file{name: g.name + string(rune('0'+g.nfiles)), remaining: int64(chunk * (1 + v.Choose("chunks", 2)))}
			var t time.Time
			t, f.age = v.TimeAgo("age", maxAge)
			f.age -= advanced // age relative to the shifted clock
			if g.delay > 0 {
				// margin: native replays run in milliseconds
				v.Assume(verifrt.Or(f.age+advanced+time.Second <= g.delay, f.age+advanced >= g.delay))
			}
			g.pending = append(g.pending, f)
			g.known = true
			q.Push([]sts.Hashed{&vFile{name: f.name, size: f.remaining, time: t.Add(advanced), hash: "h", shift: &advanced}})
		case op == ng:
			if useDelay == 0 {
				v.Assume(false)
			}
			// a day passes (every file becomes a day older)
			advanced += 24 * time.Hour
			continue
		default:
			// state of readiness before the call
			rdy := make([]bool, ng)
			for i, g := range groups {
				rdy[i] = ready(g)
			}
			s := q.Pop()
			pops++
			if s == nil {
				for i := range groups {
					v.Assert(verifrt.Not(rdy[i]), "C12.O3 Pop returns nothing only when no group has a ready chunk")
				}
				v.Reach("pop-nil")
				break
			}
			gi := -1
			for i, g := range groups {
				if g.name == s.GetName()[:1] {
					gi = i
				}
			}
			g := groups[gi]
			v.Assert(rdy[gi], "C12.O3 a group whose only file is too young is passed over")
			v.Assert(len(g.pending) > 0 && g.pending[0].name == s.GetName(), "C12 the chunk belongs to the group's first pending file")
			if len(g.pending) == 0 {
				return
			}
			for i, h := range groups {
				if i != gi {
					v.Assert(verifrt.Implies(rdy[i], h.prio <= g.prio), "C12.O1 no lower-priority chunk while a higher-priority group is ready")
				}
			}
			// round robin
			if servedOnce[gi] {
				for i, h := range groups {
					if i != gi && readyAll[[2]int{gi, i}] {
						v.Assert(verifrt.Implies(h.prio == g.prio, served[[2]int{gi, i}] == 1),
							"C12.O2 between two chunks of a group every other ready group of that priority is served once")
						v.Reach("round-robin-checked")
					}
				}
			}
			servedOnce[gi] = true
			for i := range groups {
				if i != gi {
					served[[2]int{gi, i}] = 0
					readyAll[[2]int{gi, i}] = true
					served[[2]int{i, gi}]++
				}
			}
			_, n := s.GetSlice()
			g.pending[0].remaining -= n
			if g.pending[0].remaining == 0 {
				g.pending = g.pending[1:]
			}
			v.Reach("pop-chunk")
		}
		// a group that is not ready at this point breaks "ready the whole time"
		for i, g := range groups {
			if !v.Symbolic() || true {
				r := ready(g)
				for j := range groups {
					if j != i {
						key := [2]int{j, i}
						readyAll[key] = verifrt.And(readyAll[key], r)
					}
				}
			}
		}
		checkStructure()
	}
	if pops > 0 {
		v.Reach("popped")
	}
}
