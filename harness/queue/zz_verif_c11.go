//go:build verif

package queue

// C11 (queue side) — chunks emitted for a file tile it exactly.

import (
	"time"

	"github.com/arm-doe/sts/internal/verifrt"
)

func init() {
	verifrt.Register("H_C11_Allocate", H_C11_Allocate)
}

// vFile is a harness file (sts.Hashed) with symbolic size / time.
type vFile struct {
	name  string
	size  int64
	time  time.Time
	hash  string
	shift *time.Duration // "time passes": all file times move back by *shift
}

func (f *vFile) GetPath() string    { return "/out/" + f.name }
func (f *vFile) GetName() string    { return f.name }
func (f *vFile) GetSize() int64     { return f.size }
func (f *vFile) GetTime() time.Time {
	if f.shift != nil {
		return f.time.Add(-*f.shift)
	}
	return f.time
}
func (f *vFile) GetMeta() []byte    { return nil }
func (f *vFile) GetHash() string    { return f.hash }

// O1: sortedFile.allocate driven to exhaustion: chunks non-empty, ascending,
// contiguous from 0, each ≤ chunk size, sum = size; isAllocated exactly after
// the last one. Bound: at most U chunks (size ≤ U·chunk), values < 2^53.
func H_C11_Allocate(v *verifrt.T) {
	u := v.Param("U", 4)
	size, chunk := v.Int64("size"), v.Int64("chunk")
	v.Assume(size >= 1)
	v.Assume(size < 1<<53)
	v.Assume(chunk >= 0) // 0 = whole file in one chunk
	v.Assume(chunk < 1<<53)
	f := &sortedFile{orig: &vFile{name: "a", size: size}}
	pos := int64(0)
	n := 0
	for i := 0; i < u; i++ {
		if f.isAllocated() {
			break
		}
		off, ln := f.allocate(chunk)
		n++
		v.Assert(off == pos, "C11.O1 chunk starts where the previous one ended")
		v.Assert(ln >= 1, "C11.O1 chunk is not empty")
		v.Assert(verifrt.Or(chunk == 0, ln <= chunk), "C11.O1 chunk not larger than the chunk size")
		pos += ln
		v.Assert(pos <= size, "C11.O1 chunk stays inside the file")
		v.Assert(f.isAllocated() == (pos == size), "C11.O1 isAllocated exactly when every byte is allocated")
	}
	v.Assume(f.isAllocated()) // the bound: ≤ U chunks
	v.Reach("exhausted")
	if n > 1 {
		v.Reach("several-chunks")
	}
	v.Assert(pos == size, "C11.O1 chunks cover the file exactly")
}
