//go:build verif

package queue

// C10 — files leave the queue in configured order with a consistent
// predecessor chain. Bounded operation histories on the real queue.Tagged;
// modification times are symbolic, so one path covers every assignment of
// times with the same outcome of the comparisons the queue makes.

import (
	"time"

	"github.com/arm-doe/sts"
	"github.com/arm-doe/sts/internal/verifrt"
)

func init() {
	verifrt.Register("H_C10_History", H_C10_History)
}

// vRecovered is a resumed file: it announces its own stored predecessor and
// allocates one missing range.
type vRecovered struct {
	vFile
	prev string
	beg  int64
	end  int64
	used int64
}

func (f *vRecovered) GetPrev() string    { return f.prev }
func (f *vRecovered) GetSendSize() int64 { return f.end - f.beg }
func (f *vRecovered) IsAllocated() bool  { return f.beg+f.used == f.end }
func (f *vRecovered) Allocate(desired int64) (int64, int64) {
	off := f.beg + f.used
	n := desired
	if n == 0 || off+n > f.end {
		n = f.end - off
	}
	f.used += n
	return off, n
}

type c10entry struct {
	name      string
	group     string
	time      time.Time
	size      int64
	remaining int64
	seq       int
	recovered bool
	prev      string
	holder    bool // pushed fully allocated ("already sent"): never emitted, only keeps its place in the chain
}

var c10names = []string{"a", "b", "c", "d"}

func c10group(name string, groups int) string {
	if groups > 1 && (name == "c" || name == "d") {
		return "g2"
	}
	return "g1"
}

// c10before: does e come before f in the tag's order (non-forking)
func c10before(order string, e, f *c10entry) bool {
	switch order {
	case sts.OrderFIFO:
		return verifrt.Or(e.time.Before(f.time), verifrt.And(e.time.Equal(f.time), e.name < f.name))
	case sts.OrderLIFO:
		return verifrt.Or(e.time.After(f.time), verifrt.And(e.time.Equal(f.time), e.name < f.name))
	case sts.OrderAlpha:
		return e.name < f.name
	}
	return e.seq < f.seq
}

// c10beforeConcrete decides the order of two entries (forking on symbolic times)
func c10beforeConcrete(v *verifrt.T, order string, e, f *c10entry) bool {
	if c10before(order, e, f) {
		return true
	}
	return false
}

func H_C10_History(v *verifrt.T) {
	k := v.Param("K", 5)
	nn := v.Param("NAMES", 3)
	groups := v.Param("GROUPS", 1)
	repush := v.Param("REPUSH", 0)
	orders := []string{sts.OrderFIFO, sts.OrderLIFO, sts.OrderAlpha, sts.OrderNone}
	order := orders[v.Choose("order", len(orders))]
	const chunk = 10
	tag := &Tag{Name: "t", Order: order, ChunkSize: chunk}
	q := NewTagged([]*Tag{tag},
		func(string) string { return "t" },
		func(name string) string { return c10group(name, groups) })

	var pending []*c10entry
	lastDone := map[string]string{}
	prevOf := map[string]string{}
	pushed := map[string]bool{}
	seq := 0
	repushed := false
	pops := 0
	for step := 0; step < k; step++ {
		op := v.Choose("op", nn+1)
		if op < nn {
			// ---- push names[op]
			name := c10names[op]
			if pushed[name] {
				if repush == 0 {
					v.Assume(false) // bound: every name is pushed once
				}
				repushed = true
			}
			pushed[name] = true
			e := &c10entry{name: name, group: c10group(name, groups), time: v.Time("mtime"), seq: seq}
			seq++
			e.size = int64(chunk * (1 + v.Choose("chunks", 2)))
			e.remaining = e.size
			var file sts.Hashed
			base := vFile{name: name, size: e.size, time: e.time, hash: "h"}
			kind := 0
			if v.Param("RECOVERED", 1) == 1 {
				kind = v.Choose("kind", 3)
			}
			if kind == 1 {
				e.recovered = true
				e.prev = "stored-" + name
				file = &vRecovered{vFile: base, prev: e.prev, beg: 0, end: e.size}
			} else if kind == 2 {
				// already sent before the restart: fully allocated placeholder
				e.recovered, e.holder = true, true
				e.remaining = 0
				file = &vRecovered{vFile: base, prev: "", beg: e.size, end: e.size}
			} else {
				b := base
				file = &b
			}
			// a name queued again starts over
			for i, p := range pending {
				if p.name == name {
					pending = append(pending[:i], pending[i+1:]...)
					break
				}
			}
			pending = append(pending, e)
			q.Push([]sts.Hashed{file})
			continue
		}
		// ---- pop
		// placeholders that come first in order are passed over (they become
		// the predecessor of what follows) as long as another file follows
		for _, gname := range []string{"g1", "g2"} {
			for {
				var first *c10entry
				n := 0
				for _, p := range pending {
					if p.group != gname {
						continue
					}
					n++
					if first == nil {
						first = p
						continue
					}
					if v.Symbolic() || true {
						if c10beforeConcrete(v, order, p, first) {
							first = p
						}
					}
				}
				if first == nil || !first.holder || n < 2 {
					break
				}
				lastDone[gname] = first.name
				for i, p := range pending {
					if p == first {
						pending = append(pending[:i], pending[i+1:]...)
						break
					}
				}
			}
		}
		s := q.Pop()
		pops++
		if s == nil {
			for _, p := range pending {
				v.Assert(p.holder, "C10.O1 Pop returns nothing only when nothing is pending")
			}
			continue
		}
		var e *c10entry
		for _, p := range pending {
			if p.name == s.GetName() {
				e = p
			}
		}
		v.Assert(e != nil, "C10.O1 Pop returns a pending file")
		if e == nil {
			return
		}
		v.Assert(!e.holder, "C10.O1 a file queued as already sent is not emitted")
		for _, f := range pending {
			if f != e && f.group == e.group {
				v.Assert(c10before(order, e, f), "C10.O1 the emitted file is first in the configured order")
			}
		}
		off, n := s.GetSlice()
		v.Assert(off == e.size-e.remaining, "C10.O1 chunk continues where the file left off")
		want := int64(chunk)
		if e.remaining < want {
			want = e.remaining
		}
		v.Assert(n == want, "C10.O1 chunk length")
		prev := s.GetPrev()
		v.Assert(prev != e.name, "C10.O2 a file never names itself as predecessor")
		switch {
		case order == sts.OrderNone:
			v.Assert(prev == "", "C10.O2 unordered tags announce no predecessor")
		case e.recovered && !e.holder:
			v.Assert(prev == e.prev, "C10.O4 a resumed file keeps the predecessor it announced before")
		default:
			exp := lastDone[e.group]
			if exp == e.name {
				exp = ""
			}
			v.AssertKF(prev == exp, "C10.O2 predecessor is the most recently completed file of the group",
				"KF-C10-repush-drops-prev", repushed)
		}
		if !e.recovered && order != sts.OrderNone {
			prevOf[e.name] = prev
			// acyclic while names are queued once
			cur := prev
			for hops := 0; hops < len(c10names)+1 && cur != ""; hops++ {
				// (a name pushed again is a new version that may legitimately follow a
				// file which followed its old version: by name that is a cycle, and the
				// property promises acyclicity only while every name is queued once)
				v.Assert(verifrt.Or(repushed, cur != e.name), "C10.O3 while every name is queued once, announced predecessors form no cycle")
				cur = prevOf[cur]
			}
		}
		e.remaining -= n
		if e.remaining == 0 {
			lastDone[e.group] = e.name
			for i, p := range pending {
				if p == e {
					pending = append(pending[:i], pending[i+1:]...)
					break
				}
			}
			v.Reach("file-completed")
		}
	}
	if pops > 0 {
		v.Reach("popped")
	}
}
