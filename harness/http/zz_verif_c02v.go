//go:build verif

package http

// C02 — the status poll over the wire: the real http client's Validate, the
// real server's /validate route (behind handleValidate) and a gate keeper.

import (
	"bytes"
	"errors"
	"io"
	nethttp "net/http"
	"time"

	"github.com/arm-doe/sts"
	"github.com/arm-doe/sts/internal/verifrt"
)

func init() {
	verifrt.Register("H_C02_PollLoop", H_C02_PollLoop)
}

// vLoop hands the client's request to the server's handler in-process (what the
// network and net/http do between the two is not modelled).
type vLoop struct {
	h nethttp.Handler
	// faults: requests that may still fail — before the server sees them, or
	// after it processed them with the answer lost on the way back
	v      *verifrt.T
	faults int
}

func (l *vLoop) RoundTrip(r *nethttp.Request) (*nethttp.Response, error) {
	fault := 0
	if l.faults > 0 {
		if fault = l.v.Choose("request-fails", 3); fault != 0 {
			l.faults--
		}
	}
	if fault == 1 {
		if r.Body != nil {
			r.Body.Close()
		}
		return nil, errors.New("connection refused")
	}
	w := &vWriter{}
	sr := &nethttp.Request{Method: r.Method, URL: r.URL, Header: r.Header, Body: r.Body, ContentLength: -1, TransferEncoding: []string{"chunked"}}
	l.h.ServeHTTP(w, sr)
	if fault == 2 {
		return nil, errors.New("connection reset while waiting for the answer")
	}
	st := w.status
	if st == 0 {
		st = 200
	}
	return &nethttp.Response{StatusCode: st, Header: w.Header(), Body: io.NopCloser(bytes.NewReader(w.body))}, nil
}

// vStatusGate answers status polls from a table and records what it was asked.
type vStatusGate struct {
	vGate
	codes map[string]int
	asked []string
}

func (g *vStatusGate) GetFileStatus(name string, sent time.Time) int {
	g.asked = append(g.asked, name)
	return g.codes[name]
}

type vPoll struct {
	name    string
	started time.Time
}

func (p *vPoll) GetName() string       { return p.name }
func (p *vPoll) GetSize() int64        { return 1 }
func (p *vPoll) GetHash() string       { return "h-" + p.name }
func (p *vPoll) TimeMs() int64         { return 0 }
func (p *vPoll) GetPrev() string       { return "" }
func (p *vPoll) GetStarted() time.Time { return p.started }

// Two files are polled in one request through the real Client.Validate, the
// real handleValidate + routeValidate and a gate keeper whose answers per name
// are arbitrary (symbolic codes). Every polled file comes back with exactly the
// answer the gate keeper gave for ITS name (never its neighbour's), the gate
// keeper was asked about exactly these names, and a refused request (unknown
// source) yields an error and no answers at all — so that nothing is released on
// the strength of a request that was not processed.
func H_C02_PollLoop(v *verifrt.T) {
	codeA, codeB := v.Int("code-a"), v.Int("code-b")
	v.Assume(codeA >= 0)
	v.Assume(codeA <= 3)
	v.Assume(codeB >= 0)
	v.Assume(codeB <= 3)
	gk := &vStatusGate{vGate: vGate{ready: true}, codes: map[string]int{"d/a": codeA, "b": codeB}}
	valid := v.Bool("validator-accepts")
	srv := &Server{
		GateKeepers: map[string]sts.GateKeeper{"src": gk},
		IsValid:     func(string, string) bool { return valid },
	}
	h := srv.handleValidate(nethttp.HandlerFunc(srv.routeValidate))
	c := &Client{SourceName: "src", TargetHost: "h", TargetPort: 1992}
	c.client = newBandwidthLoggingClient(&vLoop{h: h}, 0, nil)
	mt := v.Now().Add(-time.Hour)
	polled, err := c.Validate([]sts.Pollable{&vPoll{name: "d/a", started: mt}, &vPoll{name: "b", started: mt}})
	if !valid {
		v.Reach("refused")
		v.Assert(err != nil && len(polled) == 0, "C02/C15 a refused poll yields an error and no answers")
		v.Assert(len(gk.asked) == 0, "C15 a refused poll asks the gate keeper nothing")
		return
	}
	v.Reach("answered")
	v.Assert(err == nil && len(polled) == 2, "C02 every polled file gets an answer")
	v.Assert(len(gk.asked) == 2 && gk.asked[0] == "d/a" && gk.asked[1] == "b", "C02 the gate keeper is asked about exactly the polled names")
	code := func(p sts.Polled) int {
		switch {
		case p.Failed():
			return sts.ConfirmFailed
		case p.Received():
			return sts.ConfirmPassed
		case p.Waiting():
			return sts.ConfirmWaiting
		}
		return sts.ConfirmNone
	}
	for _, p := range polled {
		want := codeB
		if p.GetName() == "d/a" {
			want = codeA
		}
		v.Assert(code(p) == want, "C02 a polled file comes back with the answer given for its own name")
		v.Assert(p.GetHash() == "h-"+p.GetName(), "C02 the answer is attached to the file that was asked about")
	}
}
