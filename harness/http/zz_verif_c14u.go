//go:build verif

package http

// C14 — a receiver whose serve directory is not configured (or is not an
// absolute, clean path) serves and deletes nothing at all through the static
// route: the route must not fall back to the process's working directory.

import (
	"os"
	nethttp "net/http"
	"net/url"
	"path/filepath"

	"github.com/arm-doe/sts/internal/verifrt"
)

func init() {
	verifrt.Register("H_C14_StaticUnconfigured", H_C14_StaticUnconfigured)
}

func H_C14_StaticUnconfigured(v *verifrt.T) {
	l := v.Param("L", 3)
	root := v.TempRoot()
	v.Version("v1", 4)
	// the process's working directory holds a directory named like the source
	// (engine: the model's fixed working directory; natively: chdir)
	wd := root
	if v.Symbolic() {
		wd = "/work"
	} else {
		os.Chdir(root)
	}
	v.PutVersionFile(filepath.Join(wd, "src", "x"), "v1")
	dirs := []string{"", ".", "serve", "./serve", "../serve"}
	s := &Server{ServeDir: dirs[v.Choose("serve-dir", len(dirs))]}
	p := v.Bytes("path", 1+v.Choose("len", l))
	touched := false
	v.OnFS(func(op, path string) { touched = true })
	method := []string{"GET", "DELETE"}[v.Choose("method", 2)]
	r := &nethttp.Request{Method: method, Header: nethttp.Header{"X-Sts-Srcname": []string{"src"}}, URL: &url.URL{Path: "/static/" + p}}
	w := &vWriter{}
	s.routeFile(w, r)
	v.OnFS(nil)
	v.Assert(w.status >= 400, "C14.O3 without an absolute, clean serve directory every static request is refused")
	v.Assert(v.Symbolic() == false || !touched, "C14.O3 a refused static request does not touch the file system (no fall-back to the working directory)")
	v.Assert(v.FileIs(filepath.Join(wd, "src", "x"), "v1"), "C14.O3 a file under the working directory is never deleted through the static route")
	v.Assert(len(w.body) == 0 || w.status >= 400, "C14.O3 nothing under the working directory is served")
	v.Reach("refused")
}
