//go:build verif

package http

// C08 — what the real http client tells the sender about a data request.

import (
	"bytes"
	"errors"
	"io"
	nethttp "net/http"
	"os"
	"strconv"
	"time"

	"github.com/arm-doe/sts"
	"github.com/arm-doe/sts/internal/verifrt"
	"github.com/arm-doe/sts/payload"
)

func init() {
	verifrt.Register("H_C08_Transmit", H_C08_Transmit)
}

type vRT struct {
	status  int
	count   string
	fail    bool
	asked   int
	path    string
	method  string
	metaLen string
	source  string
	sep     string
}

func (t *vRT) RoundTrip(r *nethttp.Request) (*nethttp.Response, error) {
	t.asked++
	t.path, t.method = r.URL.Path, r.Method
	t.metaLen, t.source = r.Header.Get("X-Sts-Metalen"), r.Header.Get("X-Sts-Srcname")
	t.sep = r.Header.Get(HeaderSep)
	if t.fail {
		return nil, errors.New("connection reset by peer")
	}
	h := nethttp.Header{}
	if t.count != "" {
		h.Set("X-Sts-Partcount", t.count)
	}
	return &nethttp.Response{StatusCode: t.status, Header: h, Body: io.NopCloser(bytes.NewReader(nil))}, nil
}

type vTxFile struct {
	name string
	size int64
}

func (f *vTxFile) GetPath() string              { return "/out/" + f.name }
func (f *vTxFile) GetName() string              { return f.name }
func (f *vTxFile) GetSize() int64               { return f.size }
func (f *vTxFile) GetTime() time.Time           { return time.Time{} }
func (f *vTxFile) GetMeta() []byte              { return nil }
func (f *vTxFile) GetHash() string              { return "h" }
func (f *vTxFile) GetPrev() string              { return "" }
func (f *vTxFile) GetSlice() (int64, int64)     { return 0, f.size }
func (f *vTxFile) GetSendSize() int64           { return f.size }
func (f *vTxFile) GetNextAlloc() (int64, int64) { return 0, f.size }
func (f *vTxFile) AddAlloc(int64)               {}
func (f *vTxFile) IsAllocated() bool            { return true }

// The real Client.Transmit with a payload of P parts (real payload.Bin) and a
// receiver that answers with an arbitrary status (200, 206 with a part count,
// 4xx / 5xx) or not at all. The sender's bookkeeping relies on the pair
// (n, err) it gets back: n = all parts only for 200 without error; for 206 the
// count the receiver reported, with an error; for every other status and for a
// failed request n = 0 with an error (so that the sender asks the receiver what
// it recorded instead of assuming anything).
func H_C08_Transmit(v *verifrt.T) {
	p := 1 + v.Choose("parts", v.Param("PARTS", 3))
	bin := payload.NewBin(1<<40, func(sts.File) (sts.Readable, error) { return nil, errors.New("not read in this harness") }, nil)
	for k := 0; k < p; k++ {
		bin.Add(&vTxFile{name: string(rune('a' + k)), size: 4})
	}
	v.Assert(len(bin.GetParts()) == p, "set-up: P parts")
	status := v.Int("status") // any HTTP status
	v.Assume(status >= 100)
	v.Assume(status <= 599)
	rt := &vRT{status: status, fail: v.Choose("request-fails", 2) == 1}
	recorded := v.Choose("parts-recorded", p+1)
	rt.count = strconv.Itoa(recorded) // (only a 206 answer is supposed to be read for it)
	c := &Client{SourceName: "src", TargetHost: "h", TargetPort: 1992}
	c.client = newBandwidthLoggingClient(rt, 0, nil)
	n, err := c.Transmit(bin)
	v.Assert(rt.asked == 1 && rt.method == "PUT" && rt.path == "/data" && rt.source == "src", "C13 one PUT /data request carrying the source name")
	v.Assert(rt.sep == string(os.PathSeparator), "C13 the request announces the sender's path separator (names are split on it by the receiver)")
	hd, _ := bin.EncodeHeader()
	v.Assert(rt.metaLen == strconv.Itoa(len(hd)), "C13 the request announces the length of the descriptor header")
	switch {
	case rt.fail:
		v.Reach("no-answer")
		v.Assert(err != nil && n == 0, "C08 a request without an answer counts no part as sent")
	case rt.status == 200:
		v.Reach("accepted")
		v.Assert(err == nil && n == p, "C08 an accepted request counts all its parts")
	case rt.status == 206:
		v.Reach("partial")
		v.Assert(err != nil && n == recorded, "C08 a partial-content answer counts exactly the parts the receiver reported")
	default:
		v.Reach("refused")
		v.Assert(err != nil && n == 0, "C08 an error status counts no part as sent")
	}
}
