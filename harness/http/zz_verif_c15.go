//go:build verif

package http

// C15 — unauthorised or premature requests are refused without any effect.
// C14 — requests cannot touch files outside the configured directories.

import (
	"io"
	nethttp "net/http"
	"net/url"
	"path/filepath"
	"strings"
	"time"

	"github.com/arm-doe/sts"
	"github.com/arm-doe/sts/internal/verifrt"
	"github.com/arm-doe/sts/stage"
)

func init() {
	verifrt.Register("H_C15_Validate", H_C15_Validate)
	verifrt.Register("H_C14_Data", H_C14_Data)
	verifrt.Register("H_C14_Static", H_C14_Static)
	verifrt.Register("H_C14_StaticAudit", H_C14_StaticAudit)
}

// vGate is a gatekeeper that records every call made to it.
type vGate struct {
	ready bool
	calls []string
}

func (g *vGate) Recover()                                  { g.calls = append(g.calls, "Recover") }
func (g *vGate) CleanNow()                                 { g.calls = append(g.calls, "CleanNow") }
func (g *vGate) Prune(time.Duration)                       { g.calls = append(g.calls, "Prune") }
func (g *vGate) Ready() bool                               { return g.ready }
func (g *vGate) Scan(string) ([]byte, error)               { g.calls = append(g.calls, "Scan"); return nil, nil }
func (g *vGate) Prepare([]sts.Binned)                      { g.calls = append(g.calls, "Prepare") }
func (g *vGate) Receive(*sts.Partial, io.Reader) error     { g.calls = append(g.calls, "Receive"); return nil }
func (g *vGate) Received([]sts.Binned) int                 { g.calls = append(g.calls, "Received"); return 0 }
func (g *vGate) GetFileStatus(string, time.Time) int       { g.calls = append(g.calls, "GetFileStatus"); return 0 }
func (g *vGate) Stop(bool)                                 { g.calls = append(g.calls, "Stop") }

type vWriter struct {
	status int
	hdr    nethttp.Header
	body   []byte
}

func (w *vWriter) Header() nethttp.Header {
	if w.hdr == nil {
		w.hdr = nethttp.Header{}
	}
	return w.hdr
}
func (w *vWriter) Write(b []byte) (int, error) {
	if w.status == 0 {
		w.status = 200
	}
	w.body = append(w.body, b...)
	return len(b), nil
}
func (w *vWriter) WriteHeader(s int) {
	if w.status == 0 {
		w.status = s
	}
}

// O1: handleValidate for every combination of (source named or not, staging
// area ready or recovering, validator verdict): the wrapped handler runs only
// if a source is named AND the gatekeeper is ready AND the validator accepts
// source and key; otherwise the answer is 400 / 503 / 403 and no method of the
// gatekeeper other than Ready was called.
func H_C15_Validate(v *verifrt.T) {
	sources := []string{"", "src", "SRC", "a/b"}
	source := sources[v.Choose("source", len(sources))]
	key := v.Bytes("key", v.Choose("key-len", 3))
	ready := v.Bool("gatekeeper-ready")
	valid := v.Bool("validator-accepts")
	viaQuery := v.Choose("via-query", 2) == 1
	gk := &vGate{ready: ready}
	asked := 0
	var askedSource, askedKey string
	s := &Server{
		GateKeepers:       map[string]sts.GateKeeper{},
		GateKeeperFactory: func(string) sts.GateKeeper { return gk },
		IsValid: func(src, k string) bool {
			asked++
			askedSource, askedKey = src, k
			return valid
		},
	}
	reached := false
	h := s.handleValidate(nethttp.HandlerFunc(func(nethttp.ResponseWriter, *nethttp.Request) { reached = true }))
	r := &nethttp.Request{Method: "PUT", Header: nethttp.Header{}, URL: &url.URL{Path: "/data"}}
	if viaQuery && source != "" {
		r.URL.RawQuery = "source=" + strings.ReplaceAll(source, "/", "%2F")
		r.Header["X-Sts-Key"] = []string{key}
	} else {
		if source != "" {
			r.Header["X-Sts-Srcname"] = []string{source}
		}
		r.Header["X-Sts-Key"] = []string{key}
	}
	w := &vWriter{}
	h.ServeHTTP(w, r)
	allowed := source != "" && ready && valid
	v.Assert(reached == allowed, "C15.O1 a request is processed exactly when it names a source, the staging area is ready and source+key are accepted")
	v.Assert(len(gk.calls) == 0, "C15.O1 a refused request calls nothing on the gatekeeper but Ready")
	if reached {
		v.Reach("processed")
		v.Assert(askedSource == source && askedKey == key, "C15.O1 the validator judged this request's own source and key")
	} else {
		v.Reach("refused")
		switch {
		case source == "":
			v.Assert(w.status == 400, "C15.O1 a request naming no source is answered 400")
		case !ready:
			v.Assert(w.status == 503, "C15.O1 while the staging area recovers the answer is 'unavailable'")
			v.Assert(asked == 0, "C15 a request is not even validated while recovery runs")
		default:
			v.Assert(w.status == 403, "C15.O1 an unknown source / key is answered 403")
		}
	}
}

type vDecoder struct {
	parts []sts.Binned
	rs    []io.Reader
	next  int
}

func (d *vDecoder) GetParts() []sts.Binned { return d.parts }
func (d *vDecoder) Next() (io.Reader, bool) {
	if d.next >= len(d.rs) {
		return nil, true
	}
	r := d.rs[d.next]
	d.next++
	return r, false
}

type vMeta struct {
	name, renamed, prev, hash string
	size, beg, end            int64
}

func (b *vMeta) GetName() string          { return b.name }
func (b *vMeta) GetRenamed() string       { return b.renamed }
func (b *vMeta) GetPrev() string          { return b.prev }
func (b *vMeta) GetFileTime() time.Time   { return time.Time{} }
func (b *vMeta) GetFileHash() string      { return b.hash }
func (b *vMeta) GetFileSize() int64       { return b.size }
func (b *vMeta) GetSendSize() int64       { return b.size }
func (b *vMeta) GetSlice() (int64, int64) { return b.beg, b.end }

type vQuietRL struct{}

func (vQuietRL) Parse(func(string, string, string, int64, time.Time) bool, time.Time, time.Time) bool {
	return false
}
func (vQuietRL) Received(sts.Received)                                 {}
func (vQuietRL) WasReceived(string, string, time.Time, time.Time) bool { return false }

// C14.O1: the data route with an arbitrary part descriptor — name, predecessor
// and rename target are symbolic-byte strings over all byte values — through
// the real routeData into the real Stage over the file-system model: every
// path the stage touches lies under its stage or final directory; otherwise
// the request was refused (4xx) before any mutation.
func H_C14_Data(v *verifrt.T) {
	l := v.Param("L", 4)
	root := v.TempRoot()
	stageDir := filepath.Join(root, "stage", "src")
	finalDir := filepath.Join(root, "final", "src")
	which := v.Choose("symbolic-field", 3)
	name, prev, renamed := "f", "", ""
	sym := v.Bytes("field", 1+v.Choose("len", l))
	switch which {
	case 0:
		name = sym
	case 1:
		prev = sym
	default:
		renamed = sym
	}
	size := int64(4)
	h := v.Version("v1", size)
	v.PutVersionFile(filepath.Join(root, "secret"), "v1")
	v.PutVersionFile(filepath.Join(root, "stage", "other", "x.part"), "v1")
	gk := stage.New("src", stageDir, finalDir, vQuietRL{}, nil, nil)
	s := &Server{
		GateKeepers: map[string]sts.GateKeeper{"src": gk},
		DecoderFactory: func(int, string, io.Reader) (sts.PayloadDecoder, error) {
			return &vDecoder{
				parts: []sts.Binned{&vMeta{name: name, prev: prev, renamed: renamed, hash: h, size: size, beg: 0, end: size}},
				rs:    []io.Reader{v.Reader("v1", 0, size)},
			}, nil
		},
	}
	r := &nethttp.Request{Method: "PUT", ContentLength: 10, Header: nethttp.Header{
		"X-Sts-Srcname": []string{"src"}, "X-Sts-Metalen": []string{"10"},
	}, URL: &url.URL{Path: "/data"}, Body: io.NopCloser(strings.NewReader(""))}
	w := &vWriter{}
	s.routeData(w, r)
	v.Quiesce()
	// post-state oracle (works natively as well): nothing was created outside
	// the source's own directories and the files of others are intact
	for _, f := range v.Files(root) {
		ok := strings.HasPrefix(f, "stage/src/") || strings.HasPrefix(f, "final/src/") || f == "secret" || f == "stage/other/x.part"
		v.Assert(ok, "C14.O1 a data request creates nothing outside the stage and final directories of its source")
		if strings.HasPrefix(f, "final/src/") {
			v.Reach("delivered") // the walk goes all the way through validation and put-away
		}
	}
	v.Assert(v.FileIs(filepath.Join(root, "secret"), "v1"), "C14.O1 a file outside the configured directories is not modified or deleted")
	v.Assert(v.FileIs(filepath.Join(root, "stage", "other", "x.part"), "v1"), "C14.O1 another source's staged file is not modified or deleted")
	if w.status >= 400 {
		v.Reach("refused")
	} else {
		v.Reach("accepted")
	}
}

// C14.O3: the static route with an arbitrary source name and URL path
// (symbolic bytes): nothing outside ServeDir/<source> is deleted or modified
// (post-state oracle, natively replayable).
func H_C14_Static(v *verifrt.T) {
	c14static(v, false)
}

// C14.O3b (engine-observed): the static route never even reads or lists
// anything outside ServeDir — every file-system access is monitored.
func H_C14_StaticAudit(v *verifrt.T) {
	c14static(v, true)
}

func c14static(v *verifrt.T, audit bool) {
	l := v.Param("L", 3)
	root := v.TempRoot()
	serve := filepath.Join(root, "serve")
	v.Version("v1", 4)
	v.PutVersionFile(filepath.Join(serve, "src", "x"), "v1")
	v.PutVersionFile(filepath.Join(serve, "other", "y"), "v1")
	v.PutVersionFile(filepath.Join(serve, "o", "y"), "v1") // a neighbour with a short name (within reach of short paths)
	v.PutVersionFile(filepath.Join(root, "secret"), "v1")
	v.PutVersionFile(filepath.Join(root, "stage", "z.part"), "v1")
	source := "src"
	if v.Choose("symbolic-source", 2) == 1 {
		source = v.Bytes("source", 1+v.Choose("source-len", 2))
	}
	p := v.Bytes("path", 1+v.Choose("len", l))
	escaped := false
	if audit {
		v.OnFS(func(op, path string) {
			if !(strings.HasPrefix(path, serve+"/") || path == serve) {
				escaped = true
			}
		})
	}
	s := &Server{ServeDir: serve}
	method := []string{"GET", "DELETE"}[v.Choose("method", 2)]
	r := &nethttp.Request{Method: method, Header: nethttp.Header{"X-Sts-Srcname": []string{source}}, URL: &url.URL{Path: "/static/" + p}}
	w := &vWriter{}
	s.routeFile(w, r)
	if audit {
		v.OnFS(nil)
		v.Assert(!escaped, "C14.O3 the static route never reaches outside the serve directory")
	}
	v.Assert(v.FileIs(filepath.Join(root, "secret"), "v1"), "C14.O3 a file outside the serve directory is never deleted or modified")
	v.Assert(v.FileIs(filepath.Join(root, "stage", "z.part"), "v1"), "C14.O3 a staged file is never deleted through the static route")
	if source == "src" {
		v.Assert(v.FileIs(filepath.Join(serve, "other", "y"), "v1"), "C14.O3 another source's served file is never deleted")
	}
	// whatever the source name of the request: the files of source "o" are
	// deleted only by a request of source "o"
	v.Assert(verifrt.Or(source == "o", v.FileIs(filepath.Join(serve, "o", "y"), "v1")), "C14.O3 a request can delete served files of its own source only")
	if w.status == 200 && method == "GET" && len(w.body) > 0 {
		// (content disclosure: what is served comes from the request's own source)
		v.Assert(verifrt.Or(source == "o", verifrt.Or(source == "src", source == "other")), "C14.O3 a request is served files of its own source only")
	}
	if w.status >= 400 {
		v.Reach("refused")
	} else {
		v.Reach("served")
	}
}
