//go:build verif

package http

// C15 / C14 — the route table the real Server.Serve builds: every
// data-bearing route and method goes through handleValidate.

import (
	"io"
	nethttp "net/http"
	"net/url"
	"strings"
	"time"

	"github.com/arm-doe/sts"
	"github.com/arm-doe/sts/internal/verifrt"
)

func init() {
	verifrt.Register("H_C15_Routes", H_C15_Routes)
}

// The real Serve runs (on the model scheduler; natively on a loopback port),
// builds its ServeMux and starts its servers. A request for each route /
// method / path spelling is sent with or without a source name, with the
// staging area ready or recovering and the validator accepting or not.
// Asserted: a request that names no source, or whose gate keeper is not ready,
// or that the validator rejects, is answered 400 / 503 / 403 by every
// data-bearing route, the validator saw the request's own source and key, and
// nothing was called on the gate keeper but Ready; the health-check route
// never touches a gate keeper at all.
func H_C15_Routes(v *verifrt.T) {
	type route struct {
		path, method string
		guarded      bool
	}
	routes := []route{
		{"/data", "PUT", true}, {"/data-recovery", "PUT", true}, {"/validate", "POST", true},
		{"/partials", "GET", true}, {"/static/x", "GET", true}, {"/static/x", "DELETE", true},
		{"//data", "PUT", true}, {"/data", "GET", true}, {"/static/", "GET", true},
		{"/", "GET", false}, {"/nope", "GET", false},
	}
	rt := routes[v.Choose("route", len(routes))]
	prefix := []string{"", "/sts"}[v.Choose("path-prefix", 2)]
	named := v.Bool("source-named")
	ready := v.Bool("gatekeeper-ready")
	valid := v.Bool("validator-accepts")
	gk := &vGate{ready: ready}
	asked := 0
	var askedSource, askedKey string
	const port = 19921
	s := &Server{
		Host: "127.0.0.1", Port: port, PathPrefix: prefix, ServeDir: "/nonexistent-serve-dir",
		GateKeepers:       map[string]sts.GateKeeper{},
		GateKeeperFactory: func(string) sts.GateKeeper { return gk },
		IsValid: func(src, k string) bool {
			asked++
			askedSource, askedKey = src, k
			return valid
		},
		DecoderFactory: func(int, string, io.Reader) (sts.PayloadDecoder, error) { return &vDecoder{}, nil },
	}
	stop, done := make(chan bool), make(chan bool, 1)
	go s.Serve(stop, done)
	hdr := nethttp.Header{"X-Sts-Key": []string{"k"}}
	if named {
		hdr["X-Sts-Srcname"] = []string{"src"}
	}
	status := 0
	if v.Symbolic() {
		v.Quiesce()
		h := v.Served("127.0.0.1:19921")
		if h == nil {
			v.Assert(false, "Serve started its server")
			return
		}
		w := &vWriter{}
		h.ServeHTTP(w, &nethttp.Request{Method: rt.method, Header: hdr, URL: &url.URL{Path: prefix + rt.path},
			Body: io.NopCloser(strings.NewReader(""))})
		status = w.status
		if status == 0 {
			status = 200
		}
	} else {
		cl := &nethttp.Client{Timeout: 5 * time.Second, CheckRedirect: func(*nethttp.Request, []*nethttp.Request) error { return nethttp.ErrUseLastResponse }}
		var resp *nethttp.Response
		var err error
		for try := 0; try < 100; try++ {
			req, _ := nethttp.NewRequest(rt.method, "http://127.0.0.1:19921"+prefix+rt.path, nil)
			req.Header = hdr
			if resp, err = cl.Do(req); err == nil {
				break
			}
			time.Sleep(20 * time.Millisecond)
		}
		if err != nil {
			v.Assert(false, "the server answers on its port: "+err.Error())
			return
		}
		status = resp.StatusCode
		resp.Body.Close()
	}
	calls := len(gk.calls)
	stop <- true
	if !v.Symbolic() {
		<-done
	} else {
		v.Quiesce()
	}
	if !rt.guarded {
		v.Assert(calls == 0 && asked == 0, "C15 a route that carries no data touches no gate keeper")
		v.Reach("unguarded")
		return
	}
	allowed := named && ready && valid
	if allowed {
		v.Reach("processed")
		v.Assert(asked == 1 && askedSource == "src" && askedKey == "k", "C15 the validator judged this request's own source and key")
		v.Assert(status != 403 && status != 503, "C15 an allowed request is not refused by the validation layer")
		return
	}
	v.Reach("refused")
	v.Assert(calls == 0, "C15 every data-bearing route refuses an unauthorised or premature request before anything is called on the gate keeper")
	switch {
	case !named:
		v.Assert(status == 400, "C15 a request naming no source is answered 400 on every data-bearing route")
	case !ready:
		v.Assert(status == 503 && asked == 0, "C15 while the staging area recovers every data-bearing route answers 'unavailable'")
	default:
		v.Assert(status == 403, "C15 an unknown source / key is answered 403 on every data-bearing route")
	}
}
