//go:build verif

package http

// C13 — the payload over the wire: real http Client.Transmit -> real
// Server.routeData -> real payload.NewDecoder -> gate keeper, in one symbolic
// execution (sockets and net/http's own framing are not modelled).

import (
	"io"
	nethttp "net/http"
	"time"

	"github.com/arm-doe/sts"
	"github.com/arm-doe/sts/internal/verifrt"
	"github.com/arm-doe/sts/payload"
)

func init() {
	verifrt.Register("H_C13_WireLoop", H_C13_WireLoop)
}

// vSrcHandle is an open source file whose bytes are an uninterpreted function
// of (file, offset); reads may be short.
type vSrcHandle struct {
	v    *verifrt.T
	tag  string
	pos  int64
	size int64
}

func (h *vSrcHandle) Read(p []byte) (int, error) {
	if h.pos >= h.size {
		return 0, io.EOF
	}
	n := int64(len(p))
	if n > h.size-h.pos {
		n = h.size - h.pos
	}
	if n > 1 && h.v.Choose("short-read", 2) == 1 {
		n = 1
	}
	for j := int64(0); j < n; j++ {
		p[j] = verifrt.ContentByte(h.tag, h.pos+j)
	}
	h.pos += n
	return int(n), nil
}
func (h *vSrcHandle) Seek(off int64, whence int) (int64, error) { h.pos = off; return off, nil }
func (h *vSrcHandle) Close() error                              { return nil }

// vByteGate records, per part handed to Receive, the descriptor and the bytes
// its reader delivers.
type vByteGate struct {
	vGate
	got []vGotBytes
}

type vGotBytes struct {
	name, prev, hash string
	size, beg, end   int64
	bytes            []byte
	err              error
}

func (g *vByteGate) Receive(f *sts.Partial, r io.Reader) error {
	rec := vGotBytes{name: f.Name, prev: f.Prev, hash: f.Hash, size: f.Size, beg: f.Parts[0].Beg, end: f.Parts[0].End}
	buf := make([]byte, 2)
	for k := 0; k < 16; k++ {
		n, err := r.Read(buf)
		rec.bytes = append(rec.bytes, buf[:n]...)
		if err != nil {
			if err != io.EOF {
				rec.err = err
			}
			break
		}
	}
	g.got = append(g.got, rec)
	return nil
}

// A payload of two parts — the tail [b1, 4) of file x (4 bytes, predecessor w)
// and the head [0, e2) of file d/y:z (3 bytes), b1 and e2 chosen — built by the
// real payload.Bin, sent by the real http client, routed by the real server
// through the real decoder. What the gate keeper is handed is exactly what was
// sent: the descriptors (name, predecessor, hash, size, range) in order and,
// for each part, exactly its own bytes — content(file, offset) for every
// offset of its range — and not one byte of its neighbour, whatever the read
// sizes on the way.
func H_C13_WireLoop(v *verifrt.T) {
	b1 := int64(v.Choose("first-part-begins-at", 4))   // [b1,4) of x
	e2 := int64(1 + v.Choose("second-part-ends-at", 3)) // [0,e2) of d/y
	files := map[string]*vTxFile2{
		"x":   {name: "x", size: 4, prev: "w", tag: "x"},
		"d/y:z": {name: "d/y:z", size: 3, prev: "x", tag: "y"},
	}
	bin := payload.NewBin(1<<40, func(f sts.File) (sts.Readable, error) {
		t := files[f.GetName()]
		return &vSrcHandle{v: v, tag: t.tag, size: t.size}, nil
	}, nil)
	bin.Add(&vChunk{vTxFile2: files["x"], off: b1, n: 4 - b1})
	bin.Add(&vChunk{vTxFile2: files["d/y:z"], off: 0, n: e2})
	gk := &vByteGate{vGate: vGate{ready: true}}
	srv := &Server{
		GateKeepers:    map[string]sts.GateKeeper{"src": gk},
		IsValid:        func(string, string) bool { return true },
		DecoderFactory: payload.NewDecoder,
	}
	h := srv.handleValidate(nethttp.HandlerFunc(srv.routeData))
	c := &Client{SourceName: "src", TargetHost: "h", TargetPort: 1992}
	c.client = newBandwidthLoggingClient(&vLoop{h: h}, 0, nil)
	n, err := c.Transmit(bin)
	v.Assert(err == nil && n == 2, "C13 a well-formed payload is accepted and both parts are counted")
	if len(gk.got) != 2 {
		v.Assert(false, "C13 the gate keeper is handed as many parts as were sent")
		return
	}
	v.Reach("received")
	p1, p2 := gk.got[0], gk.got[1]
	v.Assert(p1.name == "x" && p1.prev == "w" && p1.hash == "h-x" && p1.size == 4 && p1.beg == b1 && p1.end == 4, "C13 the first descriptor arrives as encoded")
	v.Assert(p2.name == "d/y:z" && p2.prev == "x" && p2.hash == "h-d/y:z" && p2.size == 3 && p2.beg == 0 && p2.end == e2, "C13 the second descriptor arrives as encoded")
	v.Assert(p1.err == nil && int64(len(p1.bytes)) == 4-b1, "C13 the first part's reader delivers exactly end-beg bytes")
	v.Assert(p2.err == nil && int64(len(p2.bytes)) == e2, "C13 the second part's reader delivers exactly end-beg bytes")
	for j := range p1.bytes {
		v.Assert(p1.bytes[j] == verifrt.ContentByte("x", b1+int64(j)), "C13 each part receives exactly its own bytes, in order")
	}
	for j := range p2.bytes {
		v.Assert(p2.bytes[j] == verifrt.ContentByte("y", int64(j)), "C13 each part receives exactly its own bytes and never a byte of its neighbour")
	}
}

type vTxFile2 struct {
	name, prev, tag string
	size            int64
}

func (f *vTxFile2) GetPath() string    { return "/out/" + f.name }
func (f *vTxFile2) GetName() string    { return f.name }
func (f *vTxFile2) GetSize() int64     { return f.size }
func (f *vTxFile2) GetTime() time.Time { return time.Time{} }
func (f *vTxFile2) GetMeta() []byte    { return nil }
func (f *vTxFile2) GetHash() string    { return "h-" + f.name }
func (f *vTxFile2) GetPrev() string    { return f.prev }

// vChunk is one chunk of a file as the queue hands it to the payload builder.
type vChunk struct {
	*vTxFile2
	off, n    int64
	allocated int64
}

func (c *vChunk) GetSlice() (int64, int64)     { return c.off, c.n }
func (c *vChunk) GetSendSize() int64           { return c.size }
func (c *vChunk) GetNextAlloc() (int64, int64) { return c.off + c.allocated, c.off + c.n }
func (c *vChunk) AddAlloc(n int64)             { c.allocated += n }
func (c *vChunk) IsAllocated() bool            { return c.allocated == c.n }
