//go:build verif

package http

// C20 — the maintenance route that prunes empty directories hands the stage
// the minimum age the operator asked for, in the unit the request states
// (seconds).

import (
	"fmt"
	nethttp "net/http"
	"net/url"
	"time"

	"github.com/arm-doe/sts"
	"github.com/arm-doe/sts/internal/verifrt"
)

func init() {
	verifrt.Register("H_C20_PruneRoute", H_C20_PruneRoute)
}

type vPruneGate struct {
	vGate
	pruned []time.Duration
}

func (g *vPruneGate) Prune(d time.Duration) { g.pruned = append(g.pruned, d) }

// PUT /prune?minage=N&wait through the real routeInternal for every N in
// 0..2^31-1 (the digits of N are one symbolic decimal token of the query
// string), with a gatekeeper that
// records what it is asked: exactly one Prune with a minimum age of N seconds
// — directories younger than that are not removed —, nothing else; any other
// method is refused without any call.
func H_C20_PruneRoute(v *verifrt.T) {
	n := v.Int("minage-seconds")
	v.Assume(n >= 0)
	v.Assume(n <= 1<<31-1)
	method := []string{"PUT", "GET", "POST"}[v.Choose("method", 3)]
	gk := &vPruneGate{vGate: vGate{ready: true}}
	s := &Server{
		GateKeepers:       map[string]sts.GateKeeper{},
		GateKeeperFactory: func(string) sts.GateKeeper { return gk },
		IsValid:           func(src, k string) bool { return true },
	}
	r := &nethttp.Request{Method: method, Header: nethttp.Header{}, URL: &url.URL{Path: "/prune", RawQuery: fmt.Sprintf("minage=%d&wait", n)}}
	r.Header["X-Sts-Srcname"] = []string{"src"}
	w := &vWriter{}
	s.routeInternal(w, r)
	v.Quiesce()
	if method != "PUT" {
		v.Reach("refused")
		v.Assert(len(gk.pruned) == 0 && len(gk.calls) == 0, "C15/C20 a maintenance request with another method is refused without any effect")
		return
	}
	v.Reach("pruned")
	v.Assert(len(gk.pruned) == 1 && len(gk.calls) == 0, "C20 a prune request prunes once and does nothing else")
	if len(gk.pruned) == 1 {
		v.Assert(gk.pruned[0] == time.Duration(n)*time.Second, "C20 the prune request's minimum age reaches the stage in seconds: younger directories are kept")
	}
}
