//go:build verif

package http

// The whole system in one symbolic execution: real sender pipeline
// (client.Broker) -> real http client -> real server routes -> real payload
// decoder -> real stage.Stage -> real receive log, on the file-system model,
// with a power failure before any file-system call and a restart.

import (
	"errors"
	nethttp "net/http"
	"os"
	"path/filepath"
	"strings"
	"time"

	"github.com/arm-doe/sts"
	"github.com/arm-doe/sts/cache"
	"github.com/arm-doe/sts/client"
	"github.com/arm-doe/sts/internal/verifrt"
	"github.com/arm-doe/sts/log"
	"github.com/arm-doe/sts/payload"
	"github.com/arm-doe/sts/queue"
	"github.com/arm-doe/sts/stage"
)

func init() {
	verifrt.Register("H_SYS_PowerFailure", H_SYS_PowerFailure)
}

type vOutFile struct {
	name, tag string
	size      int64
	time      time.Time
	missing   bool
}

func (f *vOutFile) GetPath() string    { return "/out/" + f.name }
func (f *vOutFile) GetName() string    { return f.name }
func (f *vOutFile) GetSize() int64     { return f.size }
func (f *vOutFile) GetTime() time.Time { return f.time }
func (f *vOutFile) GetMeta() []byte    { return nil }

var errNoFile = errors.New("file does not exist")

// vOut is the outgoing directory.
type vOut struct {
	v       *verifrt.T
	files   map[string]*vOutFile
	order   []string
	removed []string
}

func (s *vOut) Scan(allow func(sts.File) bool) ([]sts.File, time.Time, error) {
	var out []sts.File
	for _, n := range s.order {
		f := s.files[n]
		if f.missing {
			continue
		}
		cp := *f
		if allow(&cp) {
			out = append(out, &cp)
		}
	}
	return out, s.v.Now(), nil
}
func (s *vOut) GetOpener() sts.Open {
	return func(f sts.File) (sts.Readable, error) {
		sf := s.files[f.GetName()]
		if sf == nil || sf.missing {
			return nil, errNoFile
		}
		return &vSrcHandle{v: s.v, tag: sf.tag, size: sf.size}, nil
	}
}
func (s *vOut) Remove(f sts.File) error {
	s.removed = append(s.removed, f.GetName())
	if sf := s.files[f.GetName()]; sf != nil {
		sf.missing = true
	}
	return nil
}
func (s *vOut) Sync(f sts.File) (sts.File, error) {
	sf := s.files[f.GetName()]
	if sf == nil || sf.missing {
		return nil, errNoFile
	}
	if sf.size != f.GetSize() || !sf.time.Equal(f.GetTime()) {
		cp := *sf
		return &cp, nil
	}
	return nil, nil
}
func (s *vOut) IsNotExist(err error) bool   { return err == errNoFile }
func (s *vOut) ShouldIgnore(sts.File) bool { return false }

type vSendLog struct{}

func (vSendLog) Sent(sts.Sent)                                          {}
func (vSendLog) WasSent(string, string, time.Time, time.Time) bool { return false }

// One source file of 1..MAXSIZE bytes. Run 1: receiver (stage behind the real
// server routes) and sender (pipeline with the real http client) start; the
// machine loses power immediately before the k-th file-system call of either
// side, or the run completes. Both restart and run again; a consumer takes
// delivered files away after each run. Asserted: the file is delivered exactly
// once, byte-identical (its bytes travelled through the real encoder, pipe,
// decoder and stage), confirmed; the source is removed only after that; the
// staging area is empty at the end.
func H_SYS_PowerFailure(v *verifrt.T) {
	v.FixClock()
	root := v.TempRoot()
	for _, d := range []string{"cache", "stage", "final", "rlog"} {
		os.MkdirAll(filepath.Join(root, d), 0o755)
	}
	size := int64(1 + v.Choose("size", v.Param("MAXSIZE", 6)))
	v.Version("v1", size)
	mtime := v.Now().Add(-2 * time.Hour)
	out := &vOut{v: v, files: map[string]*vOutFile{"g/a": {name: "g/a", size: size, time: mtime, tag: "v1"}}, order: []string{"g/a"}}
	del := v.Bool("delete-after-confirmation")
	finalDir := filepath.Join(root, "final")
	deliveries := 0
	consume := func() {
		for _, f := range v.Files(finalDir) {
			if strings.HasSuffix(f, ".lck") {
				continue
			}
			v.Assert(f == "g/a" && v.FileIs(filepath.Join(finalDir, f), "v1"), "C01 whatever reaches the final directory is the announced version, byte for byte")
			deliveries++
			os.Remove(filepath.Join(finalDir, f))
		}
	}
	var stg *stage.Stage
	faults := v.Param("FAULTS", 0) // failing requests per run
	run := func() {
		rlog := log.NewFileIO(filepath.Join(root, "rlog"), nil, nil, true)
		stg = stage.New("src", filepath.Join(root, "stage"), finalDir, rlog, nil, nil)
		stg.Recover()
		srv := &Server{
			GateKeepers:    map[string]sts.GateKeeper{"src": stg},
			IsValid:        func(string, string) bool { return true },
			DecoderFactory: payload.NewDecoder,
		}
		routes := map[string]nethttp.Handler{
			"/data":          srv.handleValidate(nethttp.HandlerFunc(srv.routeData)),
			"/data-recovery": srv.handleValidate(nethttp.HandlerFunc(srv.routeDataRecovery)),
			"/validate":      srv.handleValidate(nethttp.HandlerFunc(srv.routeValidate)),
			"/partials":      srv.handleValidate(nethttp.HandlerFunc(srv.routePartials)),
		}
		hc := &Client{SourceName: "src", TargetHost: "h", TargetPort: 1992, PartialsDecoder: stage.ReadCompanions}
		hc.client = newBandwidthLoggingClient(&vLoop{v: v, faults: faults, h: nethttp.HandlerFunc(func(w nethttp.ResponseWriter, r *nethttp.Request) {
			if h, ok := routes[r.URL.Path]; ok {
				h.ServeHTTP(w, r)
				return
			}
			w.WriteHeader(404)
		})}, 0, nil)
		c, err := cache.NewJSON(filepath.Join(root, "cache"), "/out", "k")
		if err != nil {
			v.Assert(false, "C07 the cache file is loadable after a crash at any point")
			return
		}
		tagger := func(string) string { return "" }
		broker := &client.Broker{Conf: &client.Conf{
			Name: "src", Store: out, Cache: c,
			Queue:        queue.NewTagged([]*queue.Tag{{Name: "", Order: sts.OrderFIFO, ChunkSize: 4}}, tagger, func(n string) string { return "g" }),
			Recoverer:    hc.Recover,
			BuildPayload: payload.NewBin,
			Transmitter:  hc.Transmit,
			TxRecoverer:  hc.RecoverTransmission,
			Validator:    hc.Validate,
			Logger:       vSendLog{},
			Tagger:       tagger,
			CacheAge:     time.Hour, ScanDelay: 0, Threads: 1, PayloadSize: 8,
			StatInterval: time.Hour, PollDelay: time.Second, PollInterval: time.Second, PollAttempts: 3, PollMaxCount: 10,
			Tags: []*client.FileTag{{Name: "", InOrder: true, Delete: del}}, ErrorBackoff: 1,
		}}
		stop, done := make(chan bool, 1), make(chan bool, 1)
		stop <- true // one-shot
		go broker.Start(stop, done)
		for r := 0; r < 200 && len(done) == 0; r++ {
			v.QuiesceTimers(1)
		}
		if len(done) == 0 {
			v.Assert(false, "C03/C07 the sender finishes its work and the run ends")
		}
		v.Quiesce()
	}
	m0 := v.FSMutations()
	k := v.Choose("power-failure-before-fs-call", v.Param("MAXK", 40)+1) // 0: none
	crashed := false
	if k > 0 {
		crashed = v.RunUntilCrash(k, run)
	} else {
		run()
	}
	if crashed {
		v.Reach("power-failure")
	} else {
		v.Reach("no-failure")
		v.Assert(k > 0 || v.Param("MAXK", 40) == 0 || v.FSMutations()-m0 <= v.Param("MAXK", 40), "bound: MAXK covers every file-system call of a complete run")
		v.KillProcess()
	}
	consume()
	v.Assert(len(out.removed) == 0 || deliveries == 1, "C02 the source file is removed only after the receiver delivered and confirmed that version")
	run()
	v.KillProcess()
	consume()
	v.Assert(deliveries == 1, "C05/C06 the file is delivered exactly once, whatever the point of the power failure")
	v.Assert(stg.GetFileStatus("g/a", mtime) == sts.ConfirmPassed, "C06 the delivered file is confirmed after the restart")
	for _, f := range v.Files(filepath.Join(root, "stage")) {
		v.Assert(f == "", "C03 nothing is left in the staging area: "+f)
	}
	if len(out.removed) > 0 {
		v.Assert(del, "C02 a source file is removed only if its tag says so")
		v.Reach("removed")
	}
}
