//go:build verif

package http

// C08 / C13 — the data route itself: the walk over the parts of a request, the
// 206 answer with the number of parts recorded, the refusal of a bad header.

import (
	"errors"
	"io"
	nethttp "net/http"
	"net/url"
	"strconv"
	"strings"
	"time"

	"github.com/arm-doe/sts"
	"github.com/arm-doe/sts/internal/verifrt"
)

func init() {
	verifrt.Register("H_C08_RouteData", H_C08_RouteData)
}

type vGotPart struct {
	name           string
	beg, end, size int64
}

// vGateF is a gate keeper whose Receive fails for one chosen part.
type vGateF struct {
	failAt   int // index of the Receive call that fails (-1: none)
	prepared int
	received []vGotPart // every part handed to Receive, in order
	recorded int      // parts Receive accepted
}

func (g *vGateF) Recover()                            {}
func (g *vGateF) CleanNow()                           {}
func (g *vGateF) Prune(time.Duration)                 {}
func (g *vGateF) Ready() bool                         { return true }
func (g *vGateF) Scan(string) ([]byte, error)         { return nil, nil }
func (g *vGateF) Prepare(p []sts.Binned)              { g.prepared += len(p) }
func (g *vGateF) Received([]sts.Binned) int           { return 0 }
func (g *vGateF) GetFileStatus(string, time.Time) int { return 0 }
func (g *vGateF) Stop(bool)                           {}
func (g *vGateF) Receive(f *sts.Partial, r io.Reader) error {
	k := len(g.received)
	g.received = append(g.received, vGotPart{f.Name, f.Parts[0].Beg, f.Parts[0].End, f.Size})
	if k == g.failAt {
		return errors.New("disk full")
	}
	g.recorded++
	return nil
}

// The real routeData with P parts (descriptors from a decoder stub), a gate
// keeper that fails on one chosen part (or none) and the X-STS-MetaLen header
// valid, missing or not a number. Asserted: a bad header is answered 400 and
// nothing reaches the gate keeper (C13: refused rather than attributed to the
// wrong part); parts are handed over in header order, each with its own name
// and range; after a failure the answer is 206 and its part count is exactly
// the number of parts the gate keeper recorded (C08: the sender never counts a
// part the receiver did not record), no later part is touched; otherwise 200.
func H_C08_RouteData(v *verifrt.T) {
	p := 1 + v.Choose("parts", v.Param("PARTS", 3))
	failAt := v.Choose("failing-part", p+1) - 1
	hdr := v.Choose("metalen-header", 3) // 0 valid, 1 missing, 2 not a number
	gk := &vGateF{failAt: failAt}
	var parts []sts.Binned
	var rs []io.Reader
	var begs, ends, sizes []int64
	for k := 0; k < p; k++ {
		// arbitrary (symbolic) sizes and byte ranges
		b, e, sz := v.Int64("beg"), v.Int64("end"), v.Int64("size")
		v.Assume(0 <= b)
		v.Assume(b < e)
		v.Assume(e <= sz)
		begs, ends, sizes = append(begs, b), append(ends, e), append(sizes, sz)
		parts = append(parts, &vMeta{name: string(rune('a' + k)), hash: "h", size: sz, beg: b, end: e})
		rs = append(rs, strings.NewReader("xx"))
	}
	s := &Server{
		GateKeepers:    map[string]sts.GateKeeper{"src": gk},
		DecoderFactory: func(int, string, io.Reader) (sts.PayloadDecoder, error) { return &vDecoder{parts: parts, rs: rs}, nil },
	}
	h := nethttp.Header{"X-Sts-Srcname": []string{"src"}}
	switch hdr {
	case 0:
		h["X-Sts-Metalen"] = []string{"10"}
	case 2:
		h["X-Sts-Metalen"] = []string{"1x"}
	}
	r := &nethttp.Request{Method: "PUT", ContentLength: 10, Header: h, URL: &url.URL{Path: "/data"}, Body: io.NopCloser(strings.NewReader(""))}
	w := &vWriter{}
	s.routeData(w, r)
	if hdr != 0 {
		v.Assert(w.status == 400, "C13 a data request with a missing or malformed header length is answered 400")
		v.Assert(gk.prepared == 0 && len(gk.received) == 0, "C13 a data request with a bad header is refused: nothing is prepared or received")
		v.Reach("bad-header")
		return
	}
	v.Assert(gk.prepared == p, "C13 every announced part is prepared")
	for k, got := range gk.received {
		v.Assert(got.name == string(rune('a'+k)) && got.beg == begs[k] && got.end == ends[k] && got.size == sizes[k], "C13 parts are handed to the gate keeper in header order, each with its own name, size and byte range")
	}
	if failAt < 0 {
		v.Assert(w.status == 200 && len(gk.received) == p, "C13 a complete request is answered 200 after every part was received")
		v.Reach("complete")
		return
	}
	v.Reach("failed-part")
	v.Assert(w.status == 206, "C08 a request that fails in the middle is answered 206")
	v.Assert(len(gk.received) == failAt+1, "C08 no part after the failing one is touched")
	cnt, err := strconv.Atoi(w.Header().Get("X-Sts-Partcount"))
	v.Assert(err == nil && cnt == gk.recorded, "C08 the 206 answer carries exactly the number of parts the receiver recorded")
}
