//go:build verif

package sts

// C19 — configuration means what it says after inheritance (kernel: the real
// ClientConf.propagate / reflectutil.CopyStruct over symbolic option values).

import (
	"time"

	"github.com/arm-doe/sts/internal/verifrt"
)

func init() {
	verifrt.Register("H_C19_Propagate", H_C19_Propagate)
}

type c19src struct {
	threads      int
	minAge       time.Duration
	hidden       bool
	stat         bool
	backoff      float64
	givenThreads bool
	givenMinAge  bool
	givenHidden  bool
	givenStat    bool
	givenBackoff bool
}

// O1/O2/O3: 2-3 sources with symbolic option values and a presence bit per
// option (the document either gives the option or not; an absent option is
// the zero value, which is what both decoders produce). After the real
// propagate(): every option of a later source is its own value if it was
// given, otherwise the (effective) value of the preceding source; options
// with an explicit-set marker keep an explicit false / zero. propagate() twice
// equals once.
func H_C19_Propagate(v *verifrt.T) {
	n := 2 + v.Choose("extra-source", v.Param("SOURCES", 3)-1)
	opts := v.Param("OPTS", 2) // 1: threads and stat-payload only, 2: all five options
	var own []c19src
	conf := &ClientConf{}
	for k := 0; k < n; k++ {
		var o c19src
		o.givenThreads, o.givenStat = v.Bool("given-threads"), v.Bool("given-stat")
		o.threads = v.Int("threads")
		o.stat = v.Bool("stat")
		if opts >= 2 {
			o.givenMinAge, o.givenHidden, o.givenBackoff = v.Bool("given-min-age"), v.Bool("given-hidden"), v.Bool("given-backoff")
			o.minAge = v.Duration("min-age", 0, 1000*time.Hour)
			o.hidden = v.Bool("hidden")
			// error-backoff values from a small grid (floats compare exactly)
			o.backoff = []float64{0, 0.5, 2}[v.Choose("backoff", 3)]
		}
		// an option that is not given is absent from the document: zero value
		v.Assume(verifrt.Or(o.givenThreads, o.threads == 0))
		v.Assume(verifrt.Or(o.givenMinAge, o.minAge == 0))
		v.Assume(verifrt.Or(o.givenHidden, verifrt.Not(o.hidden)))
		v.Assume(verifrt.Or(o.givenStat, verifrt.Not(o.stat)))
		if !o.givenBackoff {
			o.backoff = 0
		}
		own = append(own, o)
		conf.Sources = append(conf.Sources, &SourceConf{
			Name: string(rune('a' + k)), Threads: o.threads, MinAge: o.minAge, IncludeHidden: o.hidden,
			StatPayload: o.stat, isStatPayloadSet: o.givenStat,
			ErrorBackoff: o.backoff, isErrorBackoffSet: o.givenBackoff,
		})
	}
	conf.propagate()
	// expected effective values
	effThreads, effMinAge, effHidden, effStat, effBackoff := own[0].threads, own[0].minAge, own[0].hidden, own[0].stat, own[0].backoff
	explicitZero := false
	for k := 1; k < n; k++ {
		o := own[k]
		s := conf.Sources[k]
		// options without a marker: "given" and "zero" cannot be told apart by the
		// code; an explicit zero / false that is given is the listed finding
		explicitZero = verifrt.Or(explicitZero, verifrt.Or(verifrt.And(o.givenThreads, o.threads == 0),
			verifrt.Or(verifrt.And(o.givenMinAge, o.minAge == 0), verifrt.And(o.givenHidden, verifrt.Not(o.hidden)))))
		if o.givenThreads {
			effThreads = o.threads
		}
		if o.givenMinAge {
			effMinAge = o.minAge
		}
		if o.givenHidden {
			effHidden = o.hidden
		}
		if o.givenStat {
			effStat = o.stat
		}
		if o.givenBackoff {
			effBackoff = o.backoff
		}
		v.AssertKF(s.Threads == effThreads, "C19 threads: own value if given, else the preceding source's", "KF-C19-explicit-zero", explicitZero)
		v.AssertKF(s.MinAge == effMinAge, "C19 min-age: own value if given, else the preceding source's", "KF-C19-explicit-zero", explicitZero)
		v.AssertKF(s.IncludeHidden == effHidden, "C19 include-hidden: an explicit false is not overridden", "KF-C19-explicit-zero", explicitZero)
		v.Assert(s.StatPayload == effStat, "C19 stat-payload: an explicit false is never overridden (marker)")
		v.Assert(s.ErrorBackoff == effBackoff, "C19 error-backoff: an explicit zero is never overridden (marker)")
		v.Assert(s.Name == string(rune('a'+k)), "C19 a given name is kept")
	}
	v.Reach("propagated")
	// idempotence
	before := make([]SourceConf, n)
	for k := range conf.Sources {
		before[k] = *conf.Sources[k]
	}
	conf.propagate()
	for k := range conf.Sources {
		s, b := conf.Sources[k], before[k]
		v.Assert(s.Threads == b.Threads && s.MinAge == b.MinAge && s.IncludeHidden == b.IncludeHidden &&
			s.StatPayload == b.StatPayload && s.ErrorBackoff == b.ErrorBackoff, "C19 propagating twice equals once")
	}
}
