#!/bin/sh
cd /verif/engine && PATH=/opt/veriftools/go1.26.8/bin:$PATH GOTOOLCHAIN=local GOFLAGS=-mod=mod GOPROXY=off go build -o /verif/bin/verif ./cmd/verif
