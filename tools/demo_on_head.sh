#!/bin/bash
# usage: demo_on_head.sh <seeded-name>   — does the seeded change still break its demo on the CURRENT /repo HEAD
# (fix commits made since the change was seeded may have masked it or made the patch inapplicable)
S=/verif/seeded/$1; W=/tmp/demo_$$
git -C /repo worktree add -q --detach $W HEAD || exit 2
pkg=$(python3 -c "import json;print(json.load(open('$S/meta.json'))['demo_pkg'])"); pkg=${pkg#./}; pkg=${pkg%/}; [ -z "$pkg" ] && pkg=.
run=$(python3 -c "import json;print(json.load(open('$S/meta.json'))['demo_run'])")
tname=$(echo "$run" | grep -o "\-run [^ ]*" | head -1 | cut -d' ' -f2)
cd $W
if ! git apply $S/patch.diff 2>/dev/null && ! patch -p1 -s --no-backup-if-mismatch -F 3 < $S/patch.diff >/dev/null 2>&1; then echo "DEMO $1: patch does not apply on HEAD"; cd /; git -C /repo worktree remove --force $W; exit 0; fi
cp $S/demo_test.go.txt $pkg/zz_demo_test.go
with=$(go test -vet=off -count=1 -run "$tname" ./$pkg 2>&1 | tail -1)
git checkout -q -- . ; cp $S/demo_test.go.txt $pkg/zz_demo_test.go
without=$(go test -vet=off -count=1 -run "$tname" ./$pkg 2>&1 | tail -1)
echo "DEMO $1: with_patch=[$with] without=[$without]"
cd /; git -C /repo worktree remove --force $W
