#!/bin/bash
# runs every seeded change against the quick check of its property, then the
# cross-property pairs (a change seeded for one property that another check
# is expected to catch as well)
for d in /verif/seeded/C*-m*; do
  n=$(basename $d); id=${n%%-*}
  /verif/tools/run_mutant.sh $n $id
done
for pair in "C02-m1 C07" "C02-m2 C08" "C05-m2 C06" "C07-m3 C10" "C04-m1 C10"; do
  /verif/tools/run_mutant.sh $pair
done
