#!/bin/bash
# runs every seeded change against the check of its property (and related checks)
for d in /verif/seeded/C*-m*; do
  n=$(basename $d); id=${n%%-*}
  case $id in
    C03|C16|C19) continue;;
  esac
  /verif/tools/run_mutant.sh $n $id
done
