#!/usr/bin/env python3
# round 2 (seeded/<ID>-n<k>): first-run results vs results after strengthening
# usage: mutant_table2.py <first-run log> [<later log> ...]
import sys, json, glob, os, re
def parse(files):
    res = {}
    for f in files:
        for l in open(f):
            m = re.match(r'MUTANT (\S+) check=(\S+?):? (?:exit=(\d+) (\d+) violation)?(.*)', l)
            if m:
                name, chk, rc, nv, rest = m.groups()
                res.setdefault(name, {})[chk] = (rc, nv, rest.strip())
    return res
def cell(r):
    out = []
    for chk, (rc, nv, rest) in sorted(r.items()):
        if rc is None: out.append(f"{chk}: n/a ({rest[:50]})")
        elif rc == '1': out.append(f"**{chk}: caught**")
        elif rc == '124': out.append(f"{chk}: no verdict in time")
        elif rc == '2': out.append(f"{chk}: inconclusive (exit 2)")
        else: out.append(f"{chk}: missed")
    return '; '.join(out) or '—'
rnd = 'n'
if sys.argv[1].startswith('--round='):
    rnd = sys.argv[1].split('=')[1]; del sys.argv[1]
first = parse(sys.argv[1:2]); later = parse(sys.argv[2:])
notes = json.load(open('/verif/seeded/NOTES.json')) if os.path.exists('/verif/seeded/NOTES.json') else {}
rows = []
for d in sorted(glob.glob('/verif/seeded/C*-%s*' % rnd)):
    name = os.path.basename(d)
    summ = json.load(open(d + '/meta.json')).get('summary', '')[:120].replace('|', '/')
    note = (' NOTE: ' + notes[name]) if name in notes else ''
    rows.append(f"| {name} | {summ} | {cell(first.get(name, {}))} | {cell(later.get(name, {}))}{note} |")
c1 = sum(1 for n, r in first.items() if any(v[0] == '1' for v in r.values()))
merged = {n: {**first.get(n, {}), **later.get(n, {})} for n in set(first) | set(later)}
c2 = sum(1 for n, r in merged.items() if any(v[0] == '1' for v in r.values()))
out = ({"n":"# Second","p":"# Third","q":"# Fourth"}[rnd] + ", independent round of seeded changes\n\nWritten by fresh sub-agents (property text + scratch worktree only) AFTER the checks had been strengthened against the earlier round(s); "
       "stored and committed before any check was run against them. The first column is therefore an unbiased sample of what the checks catch.\n\n"
       f"First run: {c1} of {len(rows)} caught. After strengthening: {c2} of {len(rows)}.\n\n"
       "| seeded change | what it changes | first run | after strengthening |\n|---|---|---|---|\n" + "\n".join(rows) + "\n")
open('/verif/seeded/RESULTS_round%s.md' % {'n':'2','p':'3','q':'4'}[rnd], 'w').write(out)
print(f"first run {c1}/{len(rows)}, after {c2}/{len(rows)}")
