#!/bin/bash
# usage: run_mutant.sh <seeded-name> <check-id> [verif args...]
# Runs a check against a scratch worktree of /repo with the seeded change applied
# (so /repo itself and /verif/evidence stay untouched); the worktree is removed afterwards.
S=/verif/seeded/$1; ID=$2; shift 2
W=/tmp/mutrepo_$$; O=/tmp/mutout_$$
git -C /repo worktree add -q --detach $W HEAD || exit 2
if ! git -C $W apply $S/patch.diff 2>/dev/null; then
  if ! (cd $W && patch -p1 -s --no-backup-if-mismatch -F 3 < $S/patch.diff >/dev/null 2>&1); then
    echo "MUTANT $(basename $S) check=$ID: patch does not apply to the current tree (the mutated code was changed by a fix)"
    git -C /repo worktree remove --force $W; exit 3
  fi
fi
(cd $W && PATH=/opt/veriftools/go1.26.8/bin:$PATH GOTOOLCHAIN=local GOFLAGS=-mod=mod go build ./... >/dev/null 2>&1) || { echo "MUTANT $(basename $S) check=$ID: does not build on the current tree"; git -C /repo worktree remove --force $W; exit 3; }
mkdir -p $O
cd /verif && VERIF_REPO=$W VERIF_OUT=$O timeout 1500 ./bin/verif check $ID "$@" > $O/log 2>&1; rc=$?
echo "MUTANT $(basename $S) check=$ID exit=$rc $(grep -c '^VIOLATION' $O/log) violation line(s)"
grep -m3 "^VIOLATION\|^  harness=\|^INCONCLUSIVE\|^ENGINE" $O/log | cut -c1-260
git -C /repo worktree remove --force $W; rm -rf $O
