#!/bin/bash
# usage: run_mutant.sh <seeded-name> <check-id> [verif args...]
# Runs a check against a scratch worktree of /repo with the seeded change applied
# (so /repo itself and /verif/evidence stay untouched); the worktree is removed afterwards.
S=/verif/seeded/$1; ID=$2; shift 2
W=/tmp/mutrepo_$$; O=/tmp/mutout_$$
git -C /repo worktree add -q --detach $W HEAD || exit 2
git -C $W apply $S/patch.diff || { echo "patch does not apply"; git -C /repo worktree remove --force $W; exit 2; }
mkdir -p $O
cd /verif && VERIF_REPO=$W VERIF_OUT=$O timeout 2400 ./bin/verif check $ID "$@" > $O/log 2>&1; rc=$?
echo "MUTANT $(basename $S) check=$ID exit=$rc $(grep -c '^VIOLATION' $O/log) violation line(s)"
grep -m4 "^VIOLATION\|^  harness=\|^INCONCLUSIVE\|^ENGINE" $O/log | cut -c1-260
git -C /repo worktree remove --force $W; rm -rf $O
