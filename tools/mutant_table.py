#!/usr/bin/env python3
# builds /verif/seeded/RESULTS.md from run logs (lines "MUTANT <name> check=<id> exit=<rc> ...")
import sys, json, glob, os, re
res = {}
for f in sys.argv[1:]:
    for l in open(f):
        m = re.match(r'MUTANT (\S+) check=(\S+)(?: exit=(\d+) (\d+) violation)?(.*)', l)
        if m:
            name, chk, rc, nv, rest = m.groups()
            res.setdefault(name, {})[chk] = (rc, nv, rest.strip())
notes = json.load(open('/verif/seeded/NOTES.json')) if os.path.exists('/verif/seeded/NOTES.json') else {}
rows = []
for d in sorted(glob.glob('/verif/seeded/C*-[mn]*')):
    name = os.path.basename(d)
    meta = json.load(open(d + '/meta.json'))
    summ = meta.get('summary', '')[:110].replace('|', '/')
    r = res.get(name, {})
    cells = []
    for chk, (rc, nv, rest) in sorted(r.items()):
        if rc is None:
            cells.append(f"{chk}: n/a ({rest[:60]})")
        elif rc == '1':
            cells.append(f"**{chk}: caught** ({nv} VIOLATION lines)")
        elif rc == '124':
            cells.append(f"{chk}: not finished within the time limit (no verdict)")
        elif rc == '2':
            cells.append(f"{chk}: inconclusive (exit 2)")
        else:
            cells.append(f"{chk}: missed")
    if name in notes:
        cells.append('NOTE: ' + notes[name])
    rows.append(f"| {name} | {summ} | {'; '.join(cells) or 'not run'} |")
out = "# Seeded changes and the checks that catch them\n\n| seeded change | what it changes | result of the quick check(s) |\n|---|---|---|\n" + "\n".join(rows) + "\n"
open('/verif/seeded/RESULTS.md', 'w').write(out)
caught = sum(1 for n, r in res.items() if any(v[0] == '1' for v in r.values()))
print(f"{caught} of {len(rows)} seeded changes caught by at least one check")
