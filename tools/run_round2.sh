#!/bin/bash
# second, independent round of seeded changes (<ID>-n<k>): each against the quick check of its property
for d in /verif/seeded/C*-n*; do
  n=$(basename $d); id=${n%%-*}
  /verif/tools/run_mutant.sh $n $id
done
