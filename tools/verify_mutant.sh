#!/bin/bash
# usage: verify_mutant.sh <worktree> <mutant-dir-name> <property-id>
# Confirms in the scratch worktree: patch applies, builds, existing suite passes,
# demo fails with the patch and passes without. Then stores it under /verif/seeded.
set -u
WT=$1; M=$2; ID=$3
D=$WT/_mutants/$M
cd $WT || exit 2
git checkout -q -- . ; git clean -fdq -e _mutants
pkg=$(python3 -c "import json;print(json.load(open('$D/meta.json'))['demo_pkg'])")
pkg=${pkg#./}; pkg=${pkg%/}
run=$(python3 -c "import json;print(json.load(open('$D/meta.json'))['demo_run'])")
tname=$(echo "$run" | grep -o "\-run [^ ]*" | head -1 | cut -d' ' -f2)
git apply --check $D/patch.diff || { echo "RESULT $ID/$M: patch does not apply"; exit 1; }
git apply $D/patch.diff
go build ./... || { echo "RESULT $ID/$M: does not build"; git checkout -q -- .; exit 1; }
suite=$(go test -vet=off -count=1 ./... 2>&1 | grep -E "^--- FAIL" | grep -v "TestMisc" | head -5)
if [ -n "$suite" ]; then sleep 2; suite=$(go test -vet=off -count=1 ./... 2>&1 | grep -E "^--- FAIL" | grep -v "TestMisc" | head -5); fi
cp $D/demo_test.go.txt $pkg/zz_demo_test.go
with=$(go test -vet=off -count=1 -run "$tname" ./$pkg 2>&1 | tail -1)
git checkout -q -- .
without=$(go test -vet=off -count=1 -run "$tname" ./$pkg 2>&1 | tail -1)
rm -f $pkg/zz_demo_test.go
echo "RESULT $ID/$M: suite_failures=[${suite}] with_patch=[${with}] without=[${without}]"
case "$with" in FAIL*|*FAIL*) w=1;; *) w=0;; esac
case "$without" in ok*) o=1;; *) o=0;; esac
if [ -z "$suite" ] && [ $w = 1 ] && [ $o = 1 ]; then
  dst=/verif/seeded/$ID-$M; mkdir -p $dst
  cp $D/patch.diff $dst/patch.diff; cp $D/demo_test.go.txt $dst/demo_test.go.txt
  python3 - <<PY
import json
m=json.load(open('$D/meta.json'))
m['property']='$ID'
m['confirmed_by_me']="applied in scratch worktree $WT: go build ./... ok; go test -vet=off -count=1 ./... no failures besides http TestMisc (fails on the pristine tree too); demo with patch: $with ; demo without patch: $without"
json.dump(m,open('$dst/meta.json','w'),indent=1)
PY
  echo "KEPT $ID-$M"
else
  echo "DROPPED $ID-$M"
fi
