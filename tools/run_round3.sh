#!/bin/bash
# third, independent round of seeded changes (<ID>-p<k>): each against the quick check of its property
for d in /verif/seeded/C*-p*; do
  n=$(basename $d); id=${n%%-*}
  /verif/tools/run_mutant.sh $n $id
done
