#!/bin/bash
# re-run seeded changes (after strengthening) — args: pairs "<seeded> <check>"
while [ $# -ge 2 ]; do /verif/tools/run_mutant.sh $1 $2; shift 2; done
