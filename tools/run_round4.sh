#!/bin/bash
# fourth, independent round of seeded changes (<ID>-q<k>): each against the quick check of its property
for d in /verif/seeded/C*-q*; do
  n=$(basename $d); id=${n%%-*}
  /verif/tools/run_mutant.sh $n $id
done
