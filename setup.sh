#!/bin/sh
# Builds the verification engine from files on disk only (offline).
set -e
cd "$(dirname "$0")"
export PATH=/opt/veriftools/go1.26.8/bin:$PATH GOTOOLCHAIN=local GOFLAGS=-mod=mod GOPROXY=off GONOSUMDB='*' GONOSUMCHECK=1 GOFLAGS=-mod=mod
mkdir -p bin evidence replays
(cd engine && go build -o ../bin/verif ./cmd/verif)
echo "setup ok: $(./bin/verif list | wc -l) harnesses"
