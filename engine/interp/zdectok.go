package interp

// Decimal tokens: a symbolic integer printed with %d becomes ONE element of a
// symbolic-byte string (its digits are not modelled). Supported on such
// strings: concatenation, strings.Split by a one-byte separator that is not a
// digit or '-', strconv.ParseInt / Atoi of a string that is exactly one token
// (gives the integer back: Go's decimal printing and parsing are inverse on
// int64), passing through the JSON model. Everything else (len, comparison,
// indexing) aborts the path as unsupported, so a token never turns into a
// wrong answer.

import (
	"fmt"
	"go/types"
	"strings"
)

type decTok struct{ v symv }

func hasDecTok(b []value) bool {
	for _, x := range b {
		if _, ok := x.(decTok); ok {
			return true
		}
	}
	return false
}

// unixParts returns sec and nsec of a symbolic instant: fresh sec, rem with
// ns = 1e9*sec + rem, 0 <= rem < 1e9 (floor division, as time.Time.Unix /
// Nanosecond define them, also before the epoch), |sec| < 2^33.
func (i *interpreter) unixParts(ns value) (sec, rem symv) {
	ts := i.ts()
	key := i.term(ns).id
	if v, ok := i.world.unixCache[key]; ok {
		p := v.([2]symv)
		return p[0], p[1]
	}
	sec = symv{ts.Var(fmt.Sprintf("unixsec!%d", key), bvSort(64)), types.Int64}
	rem = symv{ts.Var(fmt.Sprintf("unixrem!%d", key), bvSort(64)), types.Int64}
	i.path.addPC(ts.BVCmp("bvsle", ts.BV(uint64(1<<64-1<<33), 64), sec.t))
	i.path.addPC(ts.BVCmp("bvslt", sec.t, ts.BV(1<<33, 64)))
	i.path.addPC(ts.BVCmp("bvsle", ts.BV(0, 64), rem.t))
	i.path.addPC(ts.BVCmp("bvslt", rem.t, ts.BV(1_000_000_000, 64)))
	i.path.addPC(ts.Eq(i.term(ns), ts.BVBin("bvadd", ts.BVBin("bvmul", sec.t, ts.BV(1_000_000_000, 64)), rem.t)))
	if i.world.unixCache == nil {
		i.world.unixCache = map[int]value{}
	}
	i.world.unixCache[key] = [2]symv{sec, rem}
	return
}

// allDecimalVerbs: every verb of the format is %d (no flags)
func allDecimalVerbs(format string) bool {
	vs := verbsOf(format)
	if len(vs) == 0 || strings.Count(format, "%") != len(vs) || strings.Count(format, "%d") != len(vs) {
		return false
	}
	return true
}

func init() {
	parse := func(name string, resKind types.BasicKind) {
		old := externals[name]
		externals[name] = func(fr *frame, a []value) value {
			if ss, ok := a[0].(symstr); ok && len(ss.b) == 1 {
				if tk, ok := ss.b[0].(decTok); ok {
					if name == "strconv.ParseInt" {
						if b, ok := a[1].(int); !ok || b != 10 {
							panic(engineError{"ParseInt of a decimal token with a base other than 10"})
						}
						if bs, ok := a[2].(int); !ok || bs != 64 {
							panic(engineError{"ParseInt of a decimal token with a bit size other than 64"})
						}
					}
					var r value = symv{tk.v.t, resKind}
					if tk.v.k != types.Int64 && tk.v.k != types.Int {
						panic(engineError{"decimal token of a non-int64 value"})
					}
					return tuple{r, iface{}}
				}
			}
			if ss, ok := a[0].(symstr); ok && hasDecTok(ss.b) {
				panic(engineError{"parsing a string that mixes decimal tokens and bytes"})
			}
			return old(fr, a)
		}
	}
	parse("strconv.ParseInt", types.Int64)
	parse("strconv.Atoi", types.Int)
}

func anySymvArg(list value) bool {
	l, ok := list.([]value)
	if !ok {
		return false
	}
	for _, a := range l {
		if e, ok := a.(iface); ok {
			if _, ok := e.v.(symv); ok {
				return true
			}
		}
	}
	return false
}
