package interp

// M-REGEX (regexp over symbolic-byte strings by NFA simulation) and the small
// net/http surface the request handlers use (headers, URL query, HandlerFunc).

import (
	"fmt"
	"go/types"
	"net/textproto"
	"net/url"
	"regexp"
	"regexp/syntax"
)

type mregexp struct {
	re     *regexp.Regexp
	prog   *syntax.Prog
	src    string
	bounds []int // cell boundaries of the class partition (regexsur.go)
}

func compileRegexp(src string) (*mregexp, error) {
	re, err := regexp.Compile(src)
	if err != nil {
		return nil, err
	}
	sre, err := syntax.Parse(src, syntax.Perl)
	if err != nil {
		return nil, err
	}
	prog, err := syntax.Compile(sre.Simplify())
	if err != nil {
		return nil, err
	}
	return &mregexp{re: re, prog: prog, src: src}, nil
}

// runeCond: does byte term b (as a Latin-1 rune) match the instruction
func (i *interpreter) runeCond(inst *syntax.Inst, b *Term) *Term {
	ts := i.ts()
	switch inst.Op {
	case syntax.InstRuneAny:
		return ts.Bool(true)
	case syntax.InstRuneAnyNotNL:
		return ts.Not(ts.Eq(b, ts.BV('\n', 8)))
	}
	fold := syntax.Flags(inst.Arg)&syntax.FoldCase != 0
	acc := ts.Bool(false)
	rs := inst.Rune
	addRange := func(lo, hi rune) {
		if lo > 255 {
			return
		}
		if hi > 255 {
			hi = 255
		}
		if lo == hi {
			acc = ts.Or(acc, ts.Eq(b, ts.BV(uint64(lo), 8)))
		} else {
			acc = ts.Or(acc, ts.And(ts.BVCmp("bvuge", b, ts.BV(uint64(lo), 8)), ts.BVCmp("bvule", b, ts.BV(uint64(hi), 8))))
		}
	}
	if len(rs) == 1 {
		addRange(rs[0], rs[0])
		if fold {
			for r := rs[0]; ; {
				r = foldRune(r)
				if r == rs[0] {
					break
				}
				addRange(r, r)
			}
		}
		return acc
	}
	for k := 0; k+1 < len(rs); k += 2 {
		addRange(rs[k], rs[k+1])
	}
	return acc
}

func foldRune(r rune) rune {
	// simple ASCII case folding orbit
	switch {
	case r >= 'a' && r <= 'z':
		return r - 32
	case r >= 'A' && r <= 'Z':
		return r + 32
	}
	return r
}

// regexMatchTerm builds the condition "the regexp matches somewhere in s".
func (i *interpreter) regexMatchTerm(m *mregexp, s []value) *Term {
	ts := i.ts()
	prog := m.prog
	n := len(s)
	matched := ts.Bool(false)
	// cur: condition under which thread pc is alive before consuming s[pos]
	cur := map[uint32]*Term{}
	var add func(set map[uint32]*Term, pc uint32, cond *Term, pos int, depth int)
	add = func(set map[uint32]*Term, pc uint32, cond *Term, pos int, depth int) {
		if c, ok := cond.boolConst(); ok && !c {
			return
		}
		if depth > 2000 {
			panic(engineError{"regexp too complex for the NFA simulation"})
		}
		inst := &prog.Inst[pc]
		switch inst.Op {
		case syntax.InstFail:
		case syntax.InstAlt, syntax.InstAltMatch:
			add(set, inst.Out, cond, pos, depth+1)
			add(set, inst.Arg, cond, pos, depth+1)
		case syntax.InstCapture, syntax.InstNop:
			add(set, inst.Out, cond, pos, depth+1)
		case syntax.InstEmptyWidth:
			ew := syntax.EmptyOp(inst.Arg)
			ok := true
			if ew&(syntax.EmptyBeginText|syntax.EmptyBeginLine) != 0 && pos != 0 {
				ok = false
			}
			if ew&(syntax.EmptyEndText|syntax.EmptyEndLine) != 0 && pos != n {
				ok = false
			}
			if ew&(syntax.EmptyWordBoundary|syntax.EmptyNoWordBoundary) != 0 {
				panic(engineError{"regexp word boundary on a symbolic string"})
			}
			if ok {
				add(set, inst.Out, cond, pos, depth+1)
			}
		case syntax.InstMatch:
			matched = ts.Or(matched, cond)
		default:
			if old, ok := set[pc]; ok {
				set[pc] = ts.Or(old, cond)
			} else {
				set[pc] = cond
			}
		}
	}
	for pos := 0; pos <= n; pos++ {
		// a match may start at any position
		add(cur, uint32(prog.Start), ts.Bool(true), pos, 0)
		if pos == n {
			break
		}
		b := i.byteTerm(s[pos])
		next := map[uint32]*Term{}
		for pc, cond := range cur {
			inst := &prog.Inst[pc]
			add(next, inst.Out, ts.And(cond, i.runeCond(inst, b)), pos+1, 0)
		}
		cur = next
	}
	return matched
}

func regexOf(v value) *mregexp {
	m, ok := nativeOf[*mregexp](v)
	if !ok {
		panic(engineError{"*regexp.Regexp not created by the regexp model"})
	}
	return m
}

func (i *interpreter) regexMatch(m *mregexp, s value) value {
	switch x := s.(type) {
	case string:
		return m.re.MatchString(x)
	case symstr:
		return mkval(i.regexMatchTerm(m, x.b), types.Bool)
	}
	panic(engineError{fmt.Sprintf("regexp match on %T", s)})
}

func mkRegexValue(m *mregexp) value {
	var cell value = &native{m}
	return &cell
}

func headerMap(v value) map[value]value {
	m, _ := v.(map[value]value)
	return m
}

func init() {
	for k, v := range map[string]externalFn{
		"regexp.MustCompile": func(fr *frame, a []value) value {
			src, ok := a[0].(string)
			if !ok {
				panic(engineError{"regexp.MustCompile of a symbolic pattern"})
			}
			m, err := compileRegexp(src)
			if err != nil {
				panic(targetPanic{iface{types.Typ[types.String], "regexp: Compile: " + err.Error()}})
			}
			return mkRegexValue(m)
		},
		"regexp.Compile": func(fr *frame, a []value) value {
			src, ok := a[0].(string)
			if !ok {
				panic(engineError{"regexp.Compile of a symbolic pattern"})
			}
			m, err := compileRegexp(src)
			if err != nil {
				return tuple{(*value)(nil), fr.i.newError(err.Error(), nil)}
			}
			return tuple{mkRegexValue(m), iface{}}
		},
		"regexp.MatchString": func(fr *frame, a []value) value {
			src, ok := a[0].(string)
			if !ok {
				panic(engineError{"regexp.MatchString with a symbolic pattern"})
			}
			m, err := compileRegexp(src)
			if err != nil {
				return tuple{false, fr.i.newError(err.Error(), nil)}
			}
			return tuple{fr.i.regexMatch(m, a[1]), iface{}}
		},
		"(*regexp.Regexp).MatchString": func(fr *frame, a []value) value { return fr.i.regexMatch(regexOf(a[0]), a[1]) },
		"(*regexp.Regexp).String":      func(fr *frame, a []value) value { return regexOf(a[0]).src },
		"(*regexp.Regexp).FindStringSubmatch": func(fr *frame, a []value) value {
			s, ok := a[1].(string)
			if !ok {
				return fr.i.regexSubmatch(regexOf(a[0]), a[1])
			}
			r := regexOf(a[0]).re.FindStringSubmatch(s)
			if r == nil {
				return []value(nil)
			}
			out := make([]value, len(r))
			for k := range r {
				out[k] = r[k]
			}
			return out
		},
		"(*regexp.Regexp).ReplaceAllString": func(fr *frame, a []value) value {
			s, ok1 := a[1].(string)
			r, ok2 := a[2].(string)
			if !ok1 || !ok2 {
				panic(engineError{"ReplaceAllString on a symbolic string"})
			}
			return regexOf(a[0]).re.ReplaceAllString(s, r)
		},
		"(*regexp.Regexp).FindString": func(fr *frame, a []value) value {
			s, ok := a[1].(string)
			if !ok {
				panic(engineError{"FindString on a symbolic string"})
			}
			return regexOf(a[0]).re.FindString(s)
		},

		// ---- net/http
		"(net/http.Header).Get": func(fr *frame, a []value) value {
			m := headerMap(a[0])
			if m == nil {
				return ""
			}
			vals, ok := m[textproto.CanonicalMIMEHeaderKey(a[1].(string))]
			if !ok {
				return ""
			}
			if l := vals.([]value); len(l) > 0 {
				return l[0]
			}
			return ""
		},
		"(net/http.Header).Set": func(fr *frame, a []value) value {
			headerMap(a[0])[textproto.CanonicalMIMEHeaderKey(a[1].(string))] = []value{a[2]}
			return nil
		},
		"(net/http.Header).Add": func(fr *frame, a []value) value {
			m := headerMap(a[0])
			k := textproto.CanonicalMIMEHeaderKey(a[1].(string))
			old, _ := m[k].([]value)
			m[k] = append(old, a[2])
			return nil
		},
		"(net/http.Header).Del": func(fr *frame, a []value) value {
			delete(headerMap(a[0]), textproto.CanonicalMIMEHeaderKey(a[1].(string)))
			return nil
		},
		"(net/http.HandlerFunc).ServeHTTP": func(fr *frame, a []value) value {
			return call(fr.i, fr, 0, a[0], []value{a[1], a[2]})
		},
		"(*net/url.URL).RequestURI": func(fr *frame, a []value) value { return "/" },
		"(*net/url.URL).Query": func(fr *frame, a []value) value {
			// URL.RawQuery is field index 7 (Scheme, Opaque, User, Host, Path, RawPath, OmitHost, ForceQuery, RawQuery, ...)
			s := (*(a[0].(*value))).(structure)
			out := map[value]value{}
			for _, f := range s {
				_ = f
			}
			idx := 8
			if up := fr.i.prog.ImportedPackage("net/url"); up != nil {
				if st, ok := up.Type("URL").Type().Underlying().(*types.Struct); ok {
					for k := 0; k < st.NumFields(); k++ {
						if st.Field(k).Name() == "RawQuery" {
							idx = k
						}
					}
				}
			}
			if ss, ok := s[idx].(symstr); ok {
				// a query with symbolic parts: split at the (concrete) separators;
				// a symbolic byte could be a separator or an escape itself, so
				// only decimal tokens (digits) are accepted as symbolic parts
				var key, val []value
				inVal := false
				flush := func() {
					if len(key) > 0 {
						k := mkstr(key)
						if ks, ok := k.(string); ok {
							l, _ := out[ks].([]value)
							out[ks] = append(l, mkstr(val))
						} else {
							panic(engineError{"URL.Query: symbolic parameter name"})
						}
					}
					key, val, inVal = nil, nil, false
				}
				for _, b := range ss.b {
					switch c := b.(type) {
					case uint8:
						switch {
						case c == '&':
							flush()
						case c == '=' && !inVal:
							inVal = true
						case c == '%' || c == '+' || c == ';':
							panic(engineError{"URL.Query: escapes next to symbolic parts are not modelled"})
						case inVal:
							val = append(val, c)
						default:
							key = append(key, c)
						}
					case decTok:
						if !inVal {
							panic(engineError{"URL.Query: symbolic parameter name"})
						}
						val = append(val, c)
					default:
						panic(engineError{"URL.Query: symbolic byte in a query string"})
					}
				}
				flush()
				return out
			}
			raw, _ := s[idx].(string)
			vals, err := url.ParseQuery(raw)
			if err == nil {
				for k, vs := range vals {
					l := make([]value, len(vs))
					for j := range vs {
						l[j] = vs[j]
					}
					out[k] = l
				}
			}
			return out
		},
		"(net/url.Values).Has": func(fr *frame, a []value) value {
			m := headerMap(a[0])
			if m == nil {
				return false
			}
			_, ok := m[a[1]].([]value)
			return ok
		},
		"(net/url.Values).Get": func(fr *frame, a []value) value {
			m := headerMap(a[0])
			if m == nil {
				return ""
			}
			if l, ok := m[a[1]].([]value); ok && len(l) > 0 {
				return l[0]
			}
			return ""
		},
	} {
		externals[k] = v
	}
}

func init() {
	externals["regexp.QuoteMeta"] = func(fr *frame, a []value) value {
		s, ok := a[0].(string)
		if !ok {
			panic(engineError{"regexp.QuoteMeta of a symbolic string"})
		}
		return regexp.QuoteMeta(s)
	}
}
