package interp

// String-level models: formatting with symbolic-byte strings, log.Logger,
// bufio.Scanner over model files, and symbolic versions of the substring
// functions whose library implementation bottoms out in assembly.

import (
	"fmt"
	"go/types"
	"strings"
	"time"
)

type mlogger struct {
	out    value
	prefix string
	flags  int
}

type mscanner struct {
	data []value
	pos  int
	tok  []value
}

var processStart = time.Now()

func anySymstrArg(list value) bool {
	l, ok := list.([]value)
	if !ok {
		return false
	}
	for _, a := range l {
		if e, ok := a.(iface); ok {
			if _, ok := e.v.(symstr); ok {
				return true
			}
		}
	}
	return false
}

// symSprintf formats with %s / %v / %d / %q-free formats when some argument
// is a symbolic-byte string; other verbs are applied natively to their
// (concrete) argument.
func (i *interpreter) symSprintf(format string, list []value) value {
	var out []value
	argi := 0
	for k := 0; k < len(format); k++ {
		c := format[k]
		if c != '%' {
			out = append(out, c)
			continue
		}
		// parse verb spec
		j := k + 1
		for j < len(format) && strings.IndexByte("+-# 0123456789.", format[j]) >= 0 {
			j++
		}
		if j >= len(format) {
			break
		}
		spec := format[k : j+1]
		k = j
		if format[j] == '%' {
			out = append(out, uint8('%'))
			continue
		}
		if argi >= len(list) {
			out = append(out, strBytes("%!"+string(format[j])+"(MISSING)")...)
			continue
		}
		a := list[argi]
		argi++
		e, _ := a.(iface)
		if ss, ok := e.v.(symstr); ok {
			if spec != "%s" && spec != "%v" {
				panic(engineError{"formatting a symbolic string with " + spec})
			}
			out = append(out, ss.b...)
			continue
		}
		if sv, ok := e.v.(symv); ok && spec == "%d" && (sv.k == types.Int64 || sv.k == types.Int) {
			out = append(out, decTok{sv})
			continue
		}
		sym := false
		var na any
		if strings.IndexByte("dxXobcU", format[j]) >= 0 && e.t != nil {
			// integer verbs print the number, not String() (time.Month, ...)
			na = nativeArg(i, e.v, &sym)
		} else {
			na = nativeArg(i, a, &sym)
		}
		if sym {
			panic(engineError{"formatting a symbolic scalar together with a symbolic string"})
		}
		out = append(out, strBytes(fmt.Sprintf(spec, na))...)
	}
	return mkstr(out)
}

// symSprint implements Sprint / Sprintln over symbolic-byte strings (operands
// are separated by spaces as Sprintln does; Sprint adds spaces only between
// non-string operands).
func (i *interpreter) symSprint(list []value, ln bool) value {
	var out []value
	prevStr := false
	for k, a := range list {
		e, _ := a.(iface)
		_, isSym := e.v.(symstr)
		_, isStr := e.v.(string)
		isStr = isStr || isSym
		if k > 0 && (ln || (!isStr && !prevStr)) {
			out = append(out, uint8(' '))
		}
		prevStr = isStr
		if isSym {
			out = append(out, e.v.(symstr).b...)
			continue
		}
		sym := false
		na := nativeArg(i, a, &sym)
		if sym {
			panic(engineError{"printing a symbolic scalar together with a symbolic string"})
		}
		out = append(out, strBytes(fmt.Sprint(na))...)
	}
	if ln {
		out = append(out, uint8('\n'))
	}
	return mkstr(out)
}

// containsTerm: does hay contain needle (both of concrete length)
func (i *interpreter) containsTerm(hay, needle []value) *Term {
	ts := i.ts()
	if len(needle) == 0 {
		return ts.Bool(true)
	}
	acc := ts.Bool(false)
	for p := 0; p+len(needle) <= len(hay); p++ {
		acc = ts.Or(acc, i.strEqTerm(hay[p:p+len(needle)], needle))
	}
	return acc
}

func bytesOf(v value) []value {
	switch x := v.(type) {
	case []value:
		return x
	case string, symstr:
		return strBytes(x)
	}
	panic(engineError{fmt.Sprintf("bytesOf: %T", v)})
}

func anySymByte(b []value) bool {
	for _, x := range b {
		if isSym(x) {
			return true
		}
	}
	return false
}

func init() {
	symContains := func(fr *frame, a []value) value {
		h, n := bytesOf(a[0]), bytesOf(a[1])
		if !anySymByte(h) && !anySymByte(n) {
			return declined{}
		}
		return mkval(fr.i.containsTerm(h, n), types.Bool)
	}
	// wrap the native bridges: symbolic operands first
	wrap := func(name string, symf externalFn) {
		old := externals[name]
		externals[name] = func(fr *frame, a []value) value {
			r := symf(fr, a)
			if _, no := r.(declined); !no {
				return r
			}
			if old != nil {
				return old(fr, a)
			}
			return declined{}
		}
	}
	wrap("strings.Contains", symContains)
	externals["bytes.Contains"] = func(fr *frame, a []value) value {
		h, n := bytesOf(a[0]), bytesOf(a[1])
		if !anySymByte(h) && !anySymByte(n) {
			hs, _ := symstr{h}.concrete()
			ns, _ := symstr{n}.concrete()
			return strings.Contains(hs, ns)
		}
		return mkval(fr.i.containsTerm(h, n), types.Bool)
	}
	// strings.Split on a symbolic string with a concrete one-byte separator:
	// every byte is decided (is it the separator or not)
	wrap("strings.Split", func(fr *frame, a []value) value {
		ss, ok := a[0].(symstr)
		if !ok {
			return declined{}
		}
		sep, ok := a[1].(string)
		if !ok || len(sep) != 1 {
			panic(engineError{"strings.Split of a symbolic string by a separator that is not one concrete byte"})
		}
		i := fr.i
		var parts []value
		var cur []value
		for _, b := range ss.b {
			if _, tok := b.(decTok); tok {
				if (sep[0] >= '0' && sep[0] <= '9') || sep[0] == '-' {
					panic(engineError{"strings.Split of a decimal token by a digit or '-'"})
				}
				cur = append(cur, b)
				continue
			}
			if i.truth("split:"+sep, i.equalsV(types.Typ[types.Uint8], b, sep[0])) {
				parts = append(parts, mkstr(cur))
				cur = nil
			} else {
				cur = append(cur, b)
			}
		}
		parts = append(parts, mkstr(cur))
		return parts
	})
	// strings.ReplaceAll(s, old, new) with symbolic s and concrete one-byte old
	wrap("strings.ReplaceAll", func(fr *frame, a []value) value {
		ss, ok := a[0].(symstr)
		if !ok {
			return declined{}
		}
		old, ok1 := a[1].(string)
		nw, ok2 := a[2].(string)
		if !ok1 || !ok2 || len(old) != 1 {
			panic(engineError{"strings.ReplaceAll on a symbolic string: pattern must be one concrete byte"})
		}
		i := fr.i
		var out []value
		for _, b := range ss.b {
			if i.truth("replace:"+old, i.equalsV(types.Typ[types.Uint8], b, old[0])) {
				out = append(out, strBytes(nw)...)
			} else {
				out = append(out, b)
			}
		}
		return mkstr(out)
	})
	wrap("strings.IndexByte", func(fr *frame, a []value) value {
		ss, ok := a[0].(symstr)
		if !ok {
			return declined{}
		}
		i := fr.i
		for k, b := range ss.b {
			if i.truth("indexbyte", i.equalsV(types.Typ[types.Uint8], b, a[1])) {
				return k
			}
		}
		return -1
	})

	for k, v := range map[string]externalFn{
		vrt + "FixClock": func(fr *frame, a []value) value {
			fr.i.world.now = processStart.UnixNano()
			return nil
		},
		// Bytes(tag, n): a symbolic-byte string of length n; bytes are never '\n'
		vrt + "Bytes": func(fr *frame, a []value) value {
			i := fr.i
			ts := i.ts()
			n := a[2].(int)
			out := make([]value, n)
			for k := 0; k < n; k++ {
				b := i.fresh("byte", a[1].(string), types.Uint8).(symv)
				i.path.addPC(ts.Not(ts.Eq(b.t, ts.BV('\n', 8))))
				i.path.addPC(ts.Not(ts.Eq(b.t, ts.BV(0, 8))))
				out[k] = b
			}
			return mkstr(out)
		},
		"log.New": func(fr *frame, a []value) value {
			var cell value = &native{&mlogger{out: a[0], prefix: a[1].(string), flags: a[2].(int)}}
			return &cell
		},
		"(*log.Logger).SetOutput": func(fr *frame, a []value) value {
			l, _ := nativeOf[*mlogger](a[0])
			l.out = a[1]
			return nil
		},
		"(*log.Logger).Println": func(fr *frame, a []value) value {
			i := fr.i
			l, _ := nativeOf[*mlogger](a[0])
			if l.flags != 0 {
				// date/time prefixes are only used by the general logger
				return nil
			}
			line := i.symSprint(a[1].([]value), true)
			b := append(strBytes(l.prefix), strBytes(line)...)
			if h, ok := nativeOf[*fhandle](l.out); ok {
				_ = h
				externals["(*os.File).Write"](fr, []value{l.out.(iface).v, b})
				return nil
			}
			return nil
		},
		"bufio.NewScanner": func(fr *frame, a []value) value {
			i := fr.i
			h, ok := nativeOf[*fhandle](a[0])
			if !ok {
				panic(engineError{"bufio.Scanner over an unmodelled reader"})
			}
			i.fsOp("read", h.path, false)
			var cell value = &native{&mscanner{data: i.blobOfHandle(h)}}
			return &cell
		},
		"(*bufio.Scanner).Scan": func(fr *frame, a []value) value {
			s, _ := nativeOf[*mscanner](a[0])
			if s.pos >= len(s.data) {
				return false
			}
			end := s.pos
			for end < len(s.data) {
				if c, ok := s.data[end].(uint8); ok && c == '\n' {
					break
				}
				end++
			}
			s.tok = s.data[s.pos:end]
			s.pos = end + 1
			return true
		},
		"(*bufio.Scanner).Bytes": func(fr *frame, a []value) value {
			s, _ := nativeOf[*mscanner](a[0])
			return append([]value(nil), s.tok...)
		},
		"(*bufio.Scanner).Text": func(fr *frame, a []value) value {
			s, _ := nativeOf[*mscanner](a[0])
			return mkstr(append([]value(nil), s.tok...))
		},
		"(*bufio.Scanner).Err":    func(fr *frame, a []value) value { return iface{} },
		"(*bufio.Scanner).Buffer": nop,
	} {
		externals[k] = v
	}
}
