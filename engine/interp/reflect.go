// Copyright 2013 The Go Authors. All rights reserved.
// Use of this source code is governed by a BSD-style
// license that can be found in the LICENSE file.

package interp

// Emulated "reflect" package.
//
// We completely replace the built-in "reflect" package.
// The only thing clients can depend upon are that reflect.Type is an
// interface and reflect.Value is an (opaque) struct.

import (
	"fmt"
	"go/token"
	"go/types"
	"reflect"
	"unsafe"

	"golang.org/x/tools/go/ssa"
)

type opaqueType struct {
	types.Type
	name string
}

func (t *opaqueType) String() string { return t.name }

// A bogus "reflect" type-checker package.  Shared across interpreters.
var reflectTypesPackage = types.NewPackage("reflect", "reflect")

// rtype is the concrete type the interpreter uses to implement the
// reflect.Type interface.
//
// type rtype <opaque>
var rtypeType = makeNamedType("rtype", &opaqueType{nil, "rtype"})

// error is an (interpreted) named type whose underlying type is string.
// The interpreter uses it for all implementations of the built-in error
// interface that it creates.
// We put it in the "reflect" package for expedience.
//
// type error string
var errorType = makeNamedType("error", &opaqueType{nil, "error"})

// wraperror is the engine's error type for fmt.Errorf("%w"): {msg, wrapped}.
var wrapErrorType = makeNamedType("wraperror", &opaqueType{nil, "wraperror"})

func makeNamedType(name string, underlying types.Type) *types.Named {
	obj := types.NewTypeName(token.NoPos, reflectTypesPackage, name, nil)
	return types.NewNamed(obj, underlying, nil)
}

// A reflect.Value is structure{rtype, value, addr, ro}: addr is the storage the
// value was read from (nil when not addressable), ro marks values reached
// through unexported fields.
func makeReflectValue(t types.Type, v value) value {
	return structure{rtype{t}, v, (*value)(nil), false}
}

func makeReflectLValue(t types.Type, addr *value, ro bool) value {
	var v value
	if addr != nil {
		v = *addr
	}
	return structure{rtype{t}, v, addr, ro}
}

// Given a reflect.Value, returns its rtype.
func rV2T(v value) rtype {
	return v.(structure)[0].(rtype)
}

// Given a reflect.Value, returns the underlying interpreter value.
func rV2V(v value) value {
	return v.(structure)[1]
}

// makeReflectType boxes up an rtype in a reflect.Type interface.
func makeReflectType(rt rtype) value {
	return iface{rtypeType, rt}
}

func ext۰reflect۰rtype۰Bits(fr *frame, args []value) value {
	// Signature: func (t reflect.rtype) int
	rt := args[0].(rtype).t
	basic, ok := rt.Underlying().(*types.Basic)
	if !ok {
		panic(fmt.Sprintf("reflect.Type.Bits(%T): non-basic type", rt))
	}
	return int(fr.i.sizes.Sizeof(basic)) * 8
}

func ext۰reflect۰rtype۰Elem(fr *frame, args []value) value {
	// Signature: func (t reflect.rtype) reflect.Type
	return makeReflectType(rtype{args[0].(rtype).t.Underlying().(interface {
		Elem() types.Type
	}).Elem()})
}

func ext۰reflect۰rtype۰Field(fr *frame, args []value) value {
	// Signature: func (t reflect.rtype, i int) reflect.StructField
	st := args[0].(rtype).t.Underlying().(*types.Struct)
	i := args[1].(int)
	f := st.Field(i)
	return structure{
		f.Name(),
		f.Pkg().Path(),
		makeReflectType(rtype{f.Type()}),
		st.Tag(i),
		0,         // TODO(adonovan): offset
		[]value{}, // TODO(adonovan): indices
		f.Anonymous(),
	}
}

func ext۰reflect۰rtype۰In(fr *frame, args []value) value {
	// Signature: func (t reflect.rtype, i int) int
	i := args[1].(int)
	return makeReflectType(rtype{args[0].(rtype).t.(*types.Signature).Params().At(i).Type()})
}

func ext۰reflect۰rtype۰Kind(fr *frame, args []value) value {
	// Signature: func (t reflect.rtype) uint
	return uint(reflectKind(args[0].(rtype).t))
}

func ext۰reflect۰rtype۰NumField(fr *frame, args []value) value {
	// Signature: func (t reflect.rtype) int
	return args[0].(rtype).t.Underlying().(*types.Struct).NumFields()
}

func ext۰reflect۰rtype۰NumIn(fr *frame, args []value) value {
	// Signature: func (t reflect.rtype) int
	return args[0].(rtype).t.Underlying().(*types.Signature).Params().Len()
}

func ext۰reflect۰rtype۰NumMethod(fr *frame, args []value) value {
	// Signature: func (t reflect.rtype) int
	return fr.i.prog.MethodSets.MethodSet(args[0].(rtype).t).Len() // beware: falsely reports generic methods
}

func ext۰reflect۰rtype۰NumOut(fr *frame, args []value) value {
	// Signature: func (t reflect.rtype) int
	return args[0].(rtype).t.Underlying().(*types.Signature).Results().Len()
}

func ext۰reflect۰rtype۰Out(fr *frame, args []value) value {
	// Signature: func (t reflect.rtype, i int) int
	i := args[1].(int)
	return makeReflectType(rtype{args[0].(rtype).t.Underlying().(*types.Signature).Results().At(i).Type()})
}

func ext۰reflect۰rtype۰Size(fr *frame, args []value) value {
	// Signature: func (t reflect.rtype) uintptr
	return uintptr(fr.i.sizes.Sizeof(args[0].(rtype).t))
}

func ext۰reflect۰rtype۰String(fr *frame, args []value) value {
	// Signature: func (t reflect.rtype) string
	return args[0].(rtype).t.String()
}

func ext۰reflect۰New(fr *frame, args []value) value {
	// Signature: func (t reflect.Type) reflect.Value
	t := args[0].(iface).v.(rtype).t
	alloc := zero(t)
	return makeReflectValue(types.NewPointer(t), &alloc)
}

func ext۰reflect۰SliceOf(fr *frame, args []value) value {
	// Signature: func (t reflect.rtype) Type
	return makeReflectType(rtype{types.NewSlice(args[0].(iface).v.(rtype).t)})
}

func ext۰reflect۰TypeOf(fr *frame, args []value) value {
	// Signature: func (t reflect.rtype) Type
	return makeReflectType(rtype{args[0].(iface).t})
}

func ext۰reflect۰ValueOf(fr *frame, args []value) value {
	// Signature: func (interface{}) reflect.Value
	itf := args[0].(iface)
	return makeReflectValue(itf.t, itf.v)
}

func ext۰reflect۰Zero(fr *frame, args []value) value {
	// Signature: func (t reflect.Type) reflect.Value
	t := args[0].(iface).v.(rtype).t
	return makeReflectValue(t, zero(t))
}

func reflectKind(t types.Type) reflect.Kind {
	switch t := t.(type) {
	case *types.Named, *types.Alias:
		return reflectKind(t.Underlying())
	case *types.Basic:
		switch t.Kind() {
		case types.Bool:
			return reflect.Bool
		case types.Int:
			return reflect.Int
		case types.Int8:
			return reflect.Int8
		case types.Int16:
			return reflect.Int16
		case types.Int32:
			return reflect.Int32
		case types.Int64:
			return reflect.Int64
		case types.Uint:
			return reflect.Uint
		case types.Uint8:
			return reflect.Uint8
		case types.Uint16:
			return reflect.Uint16
		case types.Uint32:
			return reflect.Uint32
		case types.Uint64:
			return reflect.Uint64
		case types.Uintptr:
			return reflect.Uintptr
		case types.Float32:
			return reflect.Float32
		case types.Float64:
			return reflect.Float64
		case types.Complex64:
			return reflect.Complex64
		case types.Complex128:
			return reflect.Complex128
		case types.String:
			return reflect.String
		case types.UnsafePointer:
			return reflect.UnsafePointer
		}
	case *types.Array:
		return reflect.Array
	case *types.Chan:
		return reflect.Chan
	case *types.Signature:
		return reflect.Func
	case *types.Interface:
		return reflect.Interface
	case *types.Map:
		return reflect.Map
	case *types.Pointer:
		return reflect.Pointer
	case *types.Slice:
		return reflect.Slice
	case *types.Struct:
		return reflect.Struct
	}
	panic(fmt.Sprint("unexpected type: ", t))
}

func ext۰reflect۰Value۰Kind(fr *frame, args []value) value {
	// Signature: func (reflect.Value) uint
	return uint(reflectKind(rV2T(args[0]).t))
}

func ext۰reflect۰Value۰String(fr *frame, args []value) value {
	// Signature: func (reflect.Value) string
	return toString(rV2V(args[0]))
}

func ext۰reflect۰Value۰Type(fr *frame, args []value) value {
	// Signature: func (reflect.Value) reflect.Type
	return makeReflectType(rV2T(args[0]))
}

func ext۰reflect۰Value۰Uint(fr *frame, args []value) value {
	// Signature: func (reflect.Value) uint64
	switch v := rV2V(args[0]).(type) {
	case uint:
		return uint64(v)
	case uint8:
		return uint64(v)
	case uint16:
		return uint64(v)
	case uint32:
		return uint64(v)
	case uint64:
		return uint64(v)
	case uintptr:
		return uint64(v)
	}
	panic("reflect.Value.Uint")
}

func ext۰reflect۰Value۰Len(fr *frame, args []value) value {
	// Signature: func (reflect.Value) int
	switch v := rV2V(args[0]).(type) {
	case string:
		return len(v)
	case array:
		return len(v)
	case chan value:
		return cap(v)
	case []value:
		return len(v)
	case *hashmap:
		return v.len()
	case map[value]value:
		return len(v)
	default:
		panic(fmt.Sprintf("reflect.(Value).Len(%v)", v))
	}
}

func ext۰reflect۰Value۰MapIndex(fr *frame, args []value) value {
	// Signature: func (reflect.Value) Value
	tValue := rV2T(args[0]).t.Underlying().(*types.Map).Key()
	k := rV2V(args[1])
	switch m := rV2V(args[0]).(type) {
	case map[value]value:
		if v, ok := m[k]; ok {
			return makeReflectValue(tValue, v)
		}

	case *hashmap:
		if v := m.lookup(k.(hashable)); v != nil {
			return makeReflectValue(tValue, v)
		}

	default:
		panic(fmt.Sprintf("(reflect.Value).MapIndex(%T, %T)", m, k))
	}
	return makeReflectValue(nil, nil)
}

func ext۰reflect۰Value۰MapKeys(fr *frame, args []value) value {
	// Signature: func (reflect.Value) []Value
	var keys []value
	tKey := rV2T(args[0]).t.Underlying().(*types.Map).Key()
	switch v := rV2V(args[0]).(type) {
	case map[value]value:
		for k := range v {
			keys = append(keys, makeReflectValue(tKey, k))
		}

	case *hashmap:
		for _, e := range v.entries() {
			for ; e != nil; e = e.next {
				keys = append(keys, makeReflectValue(tKey, e.key))
			}
		}

	default:
		panic(fmt.Sprintf("(reflect.Value).MapKeys(%T)", v))
	}
	return keys
}

func ext۰reflect۰Value۰NumField(fr *frame, args []value) value {
	// Signature: func (reflect.Value) int
	if _, ok := rV2V(args[0]).(*native); ok {
		// an opaque host object (compiled regexp): all its fields are
		// unexported, which is all reflectutil.IsZero looks at
		return 0
	}
	return len(rV2V(args[0]).(structure))
}

func ext۰reflect۰Value۰NumMethod(fr *frame, args []value) value {
	// Signature: func (reflect.Value) int
	return fr.i.prog.MethodSets.MethodSet(rV2T(args[0]).t).Len()
}

func ext۰reflect۰Value۰Pointer(fr *frame, args []value) value {
	// Signature: func (v reflect.Value) uintptr
	switch v := rV2V(args[0]).(type) {
	case *value:
		return uintptr(unsafe.Pointer(v))
	case chan value:
		return reflect.ValueOf(v).Pointer()
	case []value:
		return reflect.ValueOf(v).Pointer()
	case *hashmap:
		return reflect.ValueOf(v.entries()).Pointer()
	case map[value]value:
		return reflect.ValueOf(v).Pointer()
	case *ssa.Function:
		return uintptr(unsafe.Pointer(v))
	case *closure:
		return uintptr(unsafe.Pointer(v))
	default:
		panic(fmt.Sprintf("reflect.(Value).Pointer(%T)", v))
	}
}

func ext۰reflect۰Value۰Index(fr *frame, args []value) value {
	// Signature: func (v reflect.Value, i int) Value
	i := args[1].(int)
	t := rV2T(args[0]).t.Underlying()
	switch v := rV2V(args[0]).(type) {
	case array:
		return makeReflectValue(t.(*types.Array).Elem(), v[i])
	case []value:
		return makeReflectValue(t.(*types.Slice).Elem(), v[i])
	default:
		panic(fmt.Sprintf("reflect.(Value).Index(%T)", v))
	}
}

func ext۰reflect۰Value۰Bool(fr *frame, args []value) value {
	// Signature: func (reflect.Value) bool
	return rV2V(args[0]).(bool)
}

func ext۰reflect۰Value۰CanAddr(fr *frame, args []value) value {
	// Signature: func (v reflect.Value) bool
	// Always false for our representation.
	return false
}

func ext۰reflect۰Value۰CanInterface(fr *frame, args []value) value {
	// Signature: func (v reflect.Value) bool
	ro, _ := args[0].(structure)[3].(bool)
	return !ro
}

func ext۰reflect۰Value۰Elem(fr *frame, args []value) value {
	// Signature: func (v reflect.Value) reflect.Value
	switch x := rV2V(args[0]).(type) {
	case iface:
		return makeReflectValue(x.t, x.v)
	case *value:
		return makeReflectLValue(rV2T(args[0]).t.Underlying().(*types.Pointer).Elem(), x, false)
	default:
		panic(fmt.Sprintf("reflect.(Value).Elem(%T)", x))
	}
}

func ext۰reflect۰Value۰Field(fr *frame, args []value) value {
	// Signature: func (v reflect.Value, i int) reflect.Value
	v := args[0]
	i := args[1].(int)
	st := rV2T(v).t.Underlying().(*types.Struct)
	parent := v.(structure)
	ro, _ := parent[3].(bool)
	ro = ro || !st.Field(i).Exported()
	if addr, ok := parent[2].(*value); ok && addr != nil {
		return makeReflectLValue(st.Field(i).Type(), &(*addr).(structure)[i], ro)
	}
	r := makeReflectValue(st.Field(i).Type(), rV2V(v).(structure)[i]).(structure)
	r[3] = ro
	return r
}

func ext۰reflect۰Value۰Float(fr *frame, args []value) value {
	// Signature: func (reflect.Value) float64
	switch v := rV2V(args[0]).(type) {
	case float32:
		return float64(v)
	case float64:
		return float64(v)
	}
	panic("reflect.Value.Float")
}

func ext۰reflect۰Value۰Interface(fr *frame, args []value) value {
	// Signature: func (v reflect.Value) interface{}
	return ext۰reflect۰valueInterface(args)
}

func ext۰reflect۰Value۰Int(fr *frame, args []value) value {
	// Signature: func (reflect.Value) int64
	switch x := rV2V(args[0]).(type) {
	case int:
		return int64(x)
	case int8:
		return int64(x)
	case int16:
		return int64(x)
	case int32:
		return int64(x)
	case int64:
		return x
	default:
		panic(fmt.Sprintf("reflect.(Value).Int(%T)", x))
	}
}

func ext۰reflect۰Value۰IsNil(fr *frame, args []value) value {
	// Signature: func (reflect.Value) bool
	switch x := rV2V(args[0]).(type) {
	case *value:
		return x == nil
	case chan value:
		return x == nil
	case map[value]value:
		return x == nil
	case *hashmap:
		return x == nil
	case iface:
		return x.t == nil
	case []value:
		return x == nil
	case *ssa.Function:
		return x == nil
	case *ssa.Builtin:
		return x == nil
	case *closure:
		return x == nil
	default:
		panic(fmt.Sprintf("reflect.(Value).IsNil(%T)", x))
	}
}

func ext۰reflect۰Value۰IsValid(fr *frame, args []value) value {
	// Signature: func (reflect.Value) bool
	return rV2V(args[0]) != nil
}

func ext۰reflect۰Value۰Set(fr *frame, args []value) value {
	dst := args[0].(structure)
	addr, ok := dst[2].(*value)
	if !ok || addr == nil {
		panic(targetPanic{iface{types.Typ[types.String], "reflect: reflect.Value.Set using unaddressable value"}})
	}
	if ro, _ := dst[3].(bool); ro {
		panic(targetPanic{iface{types.Typ[types.String], "reflect: reflect.Value.Set using value obtained using unexported field"}})
	}
	store(rV2T(args[0]).t, addr, rV2V(args[1]))
	return nil
}

func ext۰reflect۰Value۰CanSet(fr *frame, args []value) value {
	v := args[0].(structure)
	addr, ok := v[2].(*value)
	ro, _ := v[3].(bool)
	return ok && addr != nil && !ro
}

func ext۰reflect۰Indirect(fr *frame, args []value) value {
	if _, ok := rV2T(args[0]).t.Underlying().(*types.Pointer); ok {
		return ext۰reflect۰Value۰Elem(fr, args)
	}
	return args[0]
}

func ext۰reflect۰valueInterface(args []value) value {
	// Signature: func (v reflect.Value, safe bool) interface{}
	v := args[0].(structure)
	return iface{rV2T(v).t, rV2V(v)}
}

func ext۰reflect۰error۰Error(fr *frame, args []value) value {
	return args[0]
}

func ext۰reflect۰wraperror۰Error(fr *frame, args []value) value {
	return args[0].(structure)[0]
}

func ext۰reflect۰wraperror۰Unwrap(fr *frame, args []value) value {
	return args[0].(structure)[1]
}

// newMethod creates a new method of the specified name, package and receiver type.
func newMethod(pkg *ssa.Package, recvType types.Type, name string) *ssa.Function {
	// TODO(adonovan): fix: hack: currently the only part of Signature
	// that is needed is the "pointerness" of Recv.Type, and for
	// now, we'll set it to always be false since we're only
	// concerned with rtype.  Encapsulate this better.
	sig := types.NewSignatureType(types.NewParam(token.NoPos, nil, "recv", recvType), nil, nil, nil, nil, false)
	fn := pkg.Prog.NewFunction(name, sig, "fake reflect method")
	fn.Pkg = pkg
	return fn
}

func (i *Engine) initReflect() {
	i.reflectPackage = &ssa.Package{
		Prog:    i.Prog,
		Pkg:     reflectTypesPackage,
		Members: make(map[string]ssa.Member),
	}

	// Clobber the type-checker's notion of reflect.Value's
	// underlying type so that it more closely matches the fake one
	// (at least in the number of fields---we lie about the type of
	// the rtype field).
	//
	// We must ensure that calls to (ssa.Value).Type() return the
	// fake type so that correct "shape" is used when allocating
	// variables, making zero values, loading, and storing.
	//
	// TODO(adonovan): obviously this is a hack.  We need a cleaner
	// way to fake the reflect package (almost---DeepEqual is fine).
	// One approach would be not to even load its source code, but
	// provide fake source files.  This would guarantee that no bad
	// information leaks into other packages.
	if r := i.Prog.ImportedPackage("reflect"); r != nil {
		rV := r.Pkg.Scope().Lookup("Value").Type().(*types.Named)

		// delete bodies of the old methods
		mset := i.Prog.MethodSets.MethodSet(rV)
		for method := range mset.Methods() {
			if mv := i.Prog.MethodValue(method); mv != nil {
				mv.Blocks = nil
			}
		}

		tEface := types.NewInterface(nil, nil).Complete()
		rV.SetUnderlying(types.NewStruct([]*types.Var{
			types.NewField(token.NoPos, r.Pkg, "t", tEface, false), // a lie
			types.NewField(token.NoPos, r.Pkg, "v", tEface, false),
			types.NewField(token.NoPos, r.Pkg, "addr", tEface, false),
			types.NewField(token.NoPos, r.Pkg, "ro", tEface, false),
		}, nil))
	}

	i.rtypeMethods = methodSet{
		"Bits":      newMethod(i.reflectPackage, rtypeType, "Bits"),
		"Elem":      newMethod(i.reflectPackage, rtypeType, "Elem"),
		"Field":     newMethod(i.reflectPackage, rtypeType, "Field"),
		"In":        newMethod(i.reflectPackage, rtypeType, "In"),
		"Kind":      newMethod(i.reflectPackage, rtypeType, "Kind"),
		"NumField":  newMethod(i.reflectPackage, rtypeType, "NumField"),
		"NumIn":     newMethod(i.reflectPackage, rtypeType, "NumIn"),
		"NumMethod": newMethod(i.reflectPackage, rtypeType, "NumMethod"),
		"NumOut":    newMethod(i.reflectPackage, rtypeType, "NumOut"),
		"Out":       newMethod(i.reflectPackage, rtypeType, "Out"),
		"Size":      newMethod(i.reflectPackage, rtypeType, "Size"),
		"String":    newMethod(i.reflectPackage, rtypeType, "String"),
	}
	i.errorMethods = methodSet{
		"Error": newMethod(i.reflectPackage, errorType, "Error"),
	}
	i.wrapErrorMethods = methodSet{
		"Error":  newMethod(i.reflectPackage, wrapErrorType, "Error"),
		"Unwrap": newMethod(i.reflectPackage, wrapErrorType, "Unwrap"),
	}
}
