package interp

// Deterministic cooperative scheduler for interpreted goroutines, model
// channels, timers and the sync primitives.
//
// Every interpreted goroutine is a real Go goroutine, but exactly one of them
// holds the baton at any time. A goroutine runs until it blocks (channel
// operation that cannot proceed, held mutex, WaitGroup.Wait, Quiesce) and then
// hands the baton to the next runnable goroutine in FIFO order. Interleavings
// other than this one are not explored (stated in every check that uses it).

import (
	"fmt"
	"go/types"
	"os"
	"sync"

	"golang.org/x/tools/go/ssa"
)

type goroutine struct {
	id      int
	wake    chan int // 1 = run, 0 = die
	done    bool
	started bool
	ready   func() bool // nil = runnable
	why     string
	name    string
	delayed bool // suspended (DelayAtFS) until no other goroutine can run
}

type scheduler struct {
	i       *interpreter
	cur     *goroutine
	main    *goroutine
	all     []*goroutine
	fatal   any
	wg      sync.WaitGroup
	nextID  int
	quiesce bool
	chanID  int
	fatalWhere string
}

func newScheduler(i *interpreter) *scheduler {
	s := &scheduler{i: i}
	s.main = &goroutine{id: 0, wake: make(chan int, 1), started: true, name: "main"}
	s.cur = s.main
	s.all = []*goroutine{s.main}
	s.nextID = 1
	return s
}

func (i *interpreter) spawn(instr *ssa.Go, fn value, args []value) {
	s := i.sched
	g := &goroutine{id: s.nextID, wake: make(chan int, 1)}
	s.nextID++
	switch f := fn.(type) {
	case *ssa.Function:
		g.name = f.String()
	case *closure:
		g.name = f.Fn.String()
	}
	s.all = append(s.all, g)
	s.wg.Add(1)
	go func() {
		defer s.wg.Done()
		if <-g.wake == 0 {
			g.done = true
			return
		}
		g.started = true
		defer func() {
			r := recover()
			g.done = true
			if debugSched {
				fmt.Fprintf(os.Stderr, "sched: goroutine %s exits with %v\n", g.name, r)
			}
			if _, isKill := r.(killPanic); isKill {
				return
			}
			if r != nil && s.fatal == nil {
				// a panic / abort in any goroutine ends the whole path
				if tp, ok := r.(targetPanic); ok {
					_ = tp
				}
				s.fatal = r
				s.fatalWhere = i.where()
			}
			s.handoff(g, true)
		}()
		saved := i.curFrame
		i.curFrame = nil
		call(i, nil, instr.Pos(), fn, args)
		i.curFrame = saved
	}()
}

// pick returns the next goroutine that can run, other than g (FIFO by id
// starting after g).
func (s *scheduler) pick(g *goroutine) *goroutine {
	n := len(s.all)
	start := 0
	for k, x := range s.all {
		if x == g {
			start = k + 1
			break
		}
	}
	var held *goroutine
	for k := 0; k < n; k++ {
		x := s.all[(start+k)%n]
		if x == g || x.done {
			continue
		}
		if x == s.main && s.quiesce {
			continue
		}
		if x.ready == nil || x.ready() {
			if x.delayed {
				if held == nil {
					held = x
				}
				continue
			}
			return x
		}
	}
	if held != nil {
		// nobody else can run: the delayed goroutine goes on
		held.delayed = false
	}
	return held
}

// handoff passes the baton from g to the next goroutine. If exiting is false
// the caller then waits to be woken again.
func (s *scheduler) handoff(g *goroutine, exiting bool) {
	if s.fatal != nil && g != s.main {
		// deliver the failure to main
		s.cur = s.main
		s.main.wake <- 1
		if !exiting {
			s.sleep(g)
		}
		return
	}
	for {
		next := s.pick(g)
		if next == nil {
			// nothing else can run
			if s.quiesce && g != s.main {
				next = s.main // quiescent: back to the harness
			} else if s.i.world.fireEarliestTimer() {
				if g.ready != nil && !exiting && g.ready() {
					return // the timer made g itself runnable
				}
				continue
			} else if exiting {
				if g == s.main {
					return
				}
				next = s.main // main is blocked for ever: deadlock is detected there
				if s.main.ready != nil && !s.main.ready() {
					s.fatal = pathAbort{"deadlock: all goroutines blocked (" + s.describe() + ")"}
				}
			} else {
				if g.ready != nil && g.ready() {
					return
				}
				panic(pathAbort{"deadlock: all goroutines blocked (" + s.describe() + ")"})
			}
		}
		if debugSched {
			fmt.Fprintf(os.Stderr, "sched: %s(%s) -> %s(%s) exiting=%v\n", g.name, g.why, next.name, next.why, exiting)
		}
		s.cur = next
		next.wake <- 1
		if exiting {
			return
		}
		s.sleep(g)
		return
	}
}

var debugSched = os.Getenv("VERIF_DEBUG_SCHED") != ""

func (s *scheduler) sleep(g *goroutine) {
	if <-g.wake == 0 {
		panic(killPanic{})
	}
	s.cur = g
	if g == s.main && s.fatal != nil {
		f := s.fatal
		s.fatal = nil
		s.i.fatalWhere = s.fatalWhere
		panic(f)
	}
}

func (s *scheduler) describe() string {
	out := ""
	for _, g := range s.all {
		if !g.done && g.ready != nil {
			out += fmt.Sprintf("[%s: %s]", g.name, g.why)
		}
	}
	return out
}

// waitUntil blocks the current goroutine until ready() holds.
func (i *interpreter) waitUntil(why string, ready func() bool) {
	s := i.sched
	for !ready() {
		g := s.cur
		g.ready = ready
		g.why = why
		saved := i.curFrame
		s.handoff(g, false)
		i.curFrame = saved
		g.ready = nil
	}
}

// yield lets every other runnable goroutine run once.
func (i *interpreter) yield() {
	s := i.sched
	g := s.cur
	if next := s.pick(g); next != nil {
		saved := i.curFrame
		s.cur = next
		next.wake <- 1
		s.sleep(g)
		i.curFrame = saved
	}
}

// quiesceAll runs all other goroutines until none can make progress.
func (i *interpreter) quiesceAll() {
	s := i.sched
	if s.cur != s.main {
		panic(engineError{"Quiesce called outside the harness goroutine"})
	}
	for {
		next := s.pick(s.main)
		if next == nil {
			return
		}
		s.quiesce = true
		saved := i.curFrame
		s.cur = next
		next.wake <- 1
		s.sleep(s.main)
		i.curFrame = saved
		s.quiesce = false
	}
}

func (i *interpreter) killGoroutines() {
	s := i.sched
	if s == nil {
		return
	}
	for _, g := range s.all {
		if g != s.main && !g.done {
			g.wake <- 0
		}
	}
	s.wg.Wait()
}

// liveGoroutines lists goroutines that have not finished (for harness audits).
func (i *interpreter) liveGoroutines() []string {
	var out []string
	for _, g := range i.sched.all {
		if g != i.sched.main && !g.done {
			out = append(out, g.name+": "+g.why)
		}
	}
	return out
}

// ---------------------------------------------------------------------------
// channels

type mchan struct {
	id       int
	buf      []value
	capacity int
	closed   bool
	recvWait int
	pending  []*pendingSend
}

type pendingSend struct {
	v     value
	taken bool
}

func (c *mchan) length() int { return len(c.buf) }

func (i *interpreter) makeChan(size int64) value {
	i.sched.chanID++
	return &mchan{id: i.sched.chanID, capacity: int(size)}
}

func asChan(v value) *mchan {
	switch c := v.(type) {
	case *mchan:
		return c
	case chan value:
		if c == nil {
			return nil
		}
	}
	panic(engineError{fmt.Sprintf("unexpected channel representation %T", v)})
}

func (c *mchan) canRecv() bool {
	return len(c.buf) > 0 || len(c.pending) > 0 || c.closed
}

func (c *mchan) canSend() bool {
	// room in the buffer, or a waiting receiver that is not yet served (each
	// waiting receiver takes exactly one item when it is scheduled)
	return c.closed || len(c.buf) < c.capacity+c.recvWait
}

func (i *interpreter) chanSend(ch value, v value) {
	c := asChan(ch)
	if c == nil {
		i.waitUntil("send on nil channel", func() bool { return false })
	}
	if c.closed {
		panic(targetPanic{iface{i.eng.runtimeErrorString, "send on closed channel"}})
	}
	if len(c.buf) < c.capacity+c.recvWait {
		c.buf = append(c.buf, v)
		return
	}
	ps := &pendingSend{v: v}
	c.pending = append(c.pending, ps)
	i.waitUntil(fmt.Sprintf("chan send #%d", c.id), func() bool { return ps.taken || c.closed })
	if !ps.taken {
		panic(targetPanic{iface{i.eng.runtimeErrorString, "send on closed channel"}})
	}
}

func (c *mchan) take() (value, bool) {
	if len(c.buf) > 0 {
		v := c.buf[0]
		c.buf = c.buf[1:]
		if len(c.pending) > 0 && len(c.buf) < c.capacity {
			ps := c.pending[0]
			c.pending = c.pending[1:]
			ps.taken = true
			c.buf = append(c.buf, ps.v)
		}
		return v, true
	}
	if len(c.pending) > 0 {
		ps := c.pending[0]
		c.pending = c.pending[1:]
		ps.taken = true
		return ps.v, true
	}
	return nil, false
}

func (i *interpreter) chanRecv(ch value) (value, bool) {
	c := asChan(ch)
	if c == nil {
		i.waitUntil("receive on nil channel", func() bool { return false })
	}
	if !c.canRecv() {
		c.recvWait++
		i.waitUntil(fmt.Sprintf("chan recv #%d", c.id), c.canRecv)
		c.recvWait--
	}
	return c.take()
}

func (i *interpreter) chanClose(ch value) {
	c := asChan(ch)
	if c == nil {
		panic(targetPanic{iface{i.eng.runtimeErrorString, "close of nil channel"}})
	}
	if c.closed {
		panic(targetPanic{iface{i.eng.runtimeErrorString, "close of closed channel"}})
	}
	c.closed = true
}

func (i *interpreter) doSelect(fr *frame, instr *ssa.Select) value {
	type sc struct {
		c    *mchan
		send bool
		v    value
	}
	var cases []sc
	for _, st := range instr.States {
		x := sc{c: asChan(fr.get(st.Chan)), send: st.Dir == types.SendOnly}
		if x.send {
			x.v = fr.get(st.Send)
		}
		cases = append(cases, x)
	}
	readyIdx := func() int {
		for k, x := range cases {
			if x.c == nil {
				continue
			}
			if x.send && x.c.canSend() {
				return k
			}
			if !x.send && x.c.canRecv() {
				return k
			}
		}
		return -1
	}
	chosen := readyIdx()
	if chosen < 0 && instr.Blocking {
		for _, x := range cases {
			if x.c != nil && !x.send {
				x.c.recvWait++
			}
		}
		i.waitUntil("select", func() bool { return readyIdx() >= 0 })
		for _, x := range cases {
			if x.c != nil && !x.send {
				x.c.recvWait--
			}
		}
		chosen = readyIdx()
	}
	var recv value
	recvOk := false
	if chosen >= 0 {
		x := cases[chosen]
		if x.send {
			if x.c.closed {
				panic(targetPanic{iface{i.eng.runtimeErrorString, "send on closed channel"}})
			}
			x.c.buf = append(x.c.buf, x.v)
		} else {
			recv, recvOk = x.c.take()
		}
	}
	r := tuple{chosen, recvOk}
	for k, st := range instr.States {
		if st.Dir == types.RecvOnly {
			var v value
			if k == chosen && recvOk {
				v = recv
			} else {
				v = zero(st.Chan.Type().Underlying().(*types.Chan).Elem())
			}
			r = append(r, v)
		}
	}
	return r
}
