package interp

import (
	"golang.org/x/tools/go/ssa"
)

// globalSpecial provides values for globals of packages whose init is not run.
func (i *interpreter) globalSpecial(g *ssa.Global) (value, bool) {
	name := g.String()
	switch name {
	case "os.ErrNotExist", "os.ErrExist", "os.ErrPermission", "os.ErrClosed", "os.ErrInvalid":
		fsPkg := i.prog.ImportedPackage("io/fs")
		if fsPkg != nil {
			if fg, ok := fsPkg.Members[g.Name()].(*ssa.Global); ok {
				return *i.global(fg), true
			}
		}
	case "os.Args":
		return []value{"verif"}, true
	case "time.UTC", "time.Local":
		return (*value)(nil), true
	case "os.Stdout", "os.Stderr", "os.Stdin":
		return (*value)(nil), true
	}
	return nil, false
}

