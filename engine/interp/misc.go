package interp

import (
	"fmt"
	"os"
	"strings"

	"golang.org/x/tools/go/ssa"
)

// globalSpecial provides values for globals of packages whose init is not run.
func (i *interpreter) globalSpecial(g *ssa.Global) (value, bool) {
	name := g.String()
	switch name {
	case "os.ErrNotExist", "os.ErrExist", "os.ErrPermission", "os.ErrClosed", "os.ErrInvalid":
		fsPkg := i.prog.ImportedPackage("io/fs")
		if fsPkg != nil {
			if fg, ok := fsPkg.Members[g.Name()].(*ssa.Global); ok {
				return *i.global(fg), true
			}
		}
	case "net/http.ErrServerClosed":
		return i.newError("http: Server closed", nil), true
	case "os.Args":
		return []value{"verif"}, true
	case "time.UTC", "time.Local":
		return (*value)(nil), true
	case "os.Stdout", "os.Stderr", "os.Stdin":
		return (*value)(nil), true
	}
	return nil, false
}


// sort.Slice / sort.SliceStable: insertion sort over the interpreter slice,
// calling the interpreted less function (symbolic answers fork).
func sortSlice(fr *frame, a []value) value {
	i := fr.i
	e := a[0].(iface)
	sl, ok := e.v.([]value)
	if !ok {
		panic(engineError{"sort.Slice on a non-slice"})
	}
	for x := 1; x < len(sl); x++ {
		for y := x; y > 0; y-- {
			r := call(i, fr, 0, a[1], []value{y, y - 1})
			if !i.truth("sort.less", r) {
				break
			}
			sl[y], sl[y-1] = sl[y-1], sl[y]
		}
	}
	return nil
}

func init() {
	externals["sort.Slice"] = sortSlice
	externals["sort.SliceStable"] = sortSlice
}

// verbsOf returns the verb letter consumed by each operand of a format.
func verbsOf(format string) []byte {
	var out []byte
	for k := 0; k < len(format); k++ {
		if format[k] != '%' {
			continue
		}
		j := k + 1
		for j < len(format) && strings.IndexByte("+-# 0123456789.", format[j]) >= 0 {
			j++
		}
		if j >= len(format) {
			break
		}
		if format[j] != '%' {
			out = append(out, format[j])
		}
		k = j
	}
	return out
}

var debugLog = os.Getenv("VERIF_DEBUG_LOG") != ""

// logNop stands for the repo's log.Debug / Info / Error (M-LOGGER: no-ops);
// with VERIF_DEBUG_LOG set the operands are printed for debugging harnesses.
func logNop(fr *frame, a []value) value {
	if debugLog && len(a) > 0 {
		if l, ok := a[0].([]value); ok {
			var sb strings.Builder
			for _, x := range l {
				if e, ok := x.(iface); ok {
					if ss, ok := e.v.(symstr); ok {
						fmt.Fprintf(&sb, " <symstr len %d>", len(ss.b))
						continue
					}
					fmt.Fprintf(&sb, " %q", fmt.Sprint(e.v))
				}
			}
			fmt.Fprintln(os.Stderr, "log:", sb.String())
		}
	}
	return nil
}

// VERIF_FIX="tag=value,tag=value": debugging aid — restricts the exploration
// to paths on which the named harness inputs (first occurrence of the tag)
// have the given values. Never set by registered commands.
var fixedInputs = func() map[string]int64 {
	m := map[string]int64{}
	for _, kv := range strings.Split(os.Getenv("VERIF_FIX"), ",") {
		if k, v, ok := strings.Cut(kv, "="); ok {
			var n int64
			fmt.Sscanf(v, "%d", &n)
			m[k] = n
		}
	}
	return m
}()
