package interp

// Intrinsics of the file-system, JSON and MD5 models plus the verifrt
// environment API.

import (
	"fmt"
	"go/types"
	"path/filepath"
	"strings"
)

var fileInfoType = makeNamedType("fileinfo", &opaqueType{nil, "fileinfo"})
var dirEntryType = makeNamedType("direntry", &opaqueType{nil, "direntry"})
var creaderType = makeNamedType("creader", &opaqueType{nil, "creader"})

type jsonDoc struct {
	t types.Type
	v value
}

type md5state struct {
	hex  string
	data []string
}
type md5sum struct{ hex string }

func (i *interpreter) mkFileInfo(path string, n *fnode) value {
	return iface{fileInfoType, structure{filepath.Base(path), n.size, n.mtime, n.dir}}
}

// deepCopy copies an interpreter value graph (pointer identity preserved
// inside the copy).
func deepCopy(v value, memo map[*value]*value) value {
	switch x := v.(type) {
	case structure:
		out := make(structure, len(x))
		for k := range x {
			out[k] = deepCopy(x[k], memo)
		}
		return out
	case array:
		out := make(array, len(x))
		for k := range x {
			out[k] = deepCopy(x[k], memo)
		}
		return out
	case []value:
		if x == nil {
			return x
		}
		out := make([]value, len(x))
		for k := range x {
			out[k] = deepCopy(x[k], memo)
		}
		return out
	case *value:
		if x == nil {
			return x
		}
		if c, ok := memo[x]; ok {
			return c
		}
		c := new(value)
		memo[x] = c
		*c = deepCopy(*x, memo)
		return c
	case map[value]value:
		if x == nil {
			return x
		}
		out := make(map[value]value, len(x))
		for k, e := range x {
			out[k] = deepCopy(e, memo)
		}
		return out
	case iface:
		return iface{x.t, deepCopy(x.v, memo)}
	case tuple:
		out := make(tuple, len(x))
		for k := range x {
			out[k] = deepCopy(x[k], memo)
		}
		return out
	}
	return v
}

func derefType(t types.Type) (types.Type, bool) {
	if p, ok := t.Underlying().(*types.Pointer); ok {
		return p.Elem(), true
	}
	return t, false
}

func (i *interpreter) jsonMarshal(v value) value {
	e, ok := v.(iface)
	if !ok || e.t == nil {
		return tuple{[]value{&native{&jsonDoc{nil, nil}}}, iface{}}
	}
	doc := &jsonDoc{t: e.t, v: deepCopy(e.v, map[*value]*value{})}
	return tuple{[]value{&native{doc}}, iface{}}
}

func docOf(b value) *jsonDoc {
	sl, ok := b.([]value)
	if !ok || len(sl) == 0 {
		return nil
	}
	n, ok := sl[0].(*native)
	if !ok {
		return nil
	}
	d, _ := n.v.(*jsonDoc)
	return d
}

func (i *interpreter) jsonUnmarshal(b value, target value) value {
	doc := docOf(b)
	if doc == nil {
		return i.newError("invalid JSON document (not written by the JSON model: empty or torn file)", nil)
	}
	t, ok := target.(iface)
	if !ok || t.t == nil {
		return i.newError("json: Unmarshal(nil)", nil)
	}
	ptr, ok := t.v.(*value)
	if !ok || ptr == nil {
		return i.newError("json: Unmarshal(non-pointer)", nil)
	}
	X, isPtr := derefType(t.t)
	if !isPtr {
		return i.newError("json: Unmarshal(non-pointer)", nil)
	}
	if doc.t == nil {
		return iface{}
	}
	cp := deepCopy(doc.v, map[*value]*value{})
	if types.Identical(doc.t, X) {
		store(X, ptr, cp)
		return iface{}
	}
	if Y, ok := derefType(doc.t); ok && types.Identical(Y, X) {
		p := cp.(*value)
		if p == nil {
			return iface{}
		}
		store(X, ptr, *p)
		return iface{}
	}
	// a pointer target for a value document: *X where X = *Y
	if Y, ok := derefType(X); ok && types.Identical(Y, doc.t) {
		c := new(value)
		*c = cp
		*ptr = c
		return iface{}
	}
	// any JSON value into an empty interface: a string stays a string (numbers
	// would become float64 in the real decoder: not modelled)
	if it, ok := X.Underlying().(*types.Interface); ok && it.Empty() {
		if b, ok := doc.t.Underlying().(*types.Basic); ok && b.Info()&types.IsString != 0 {
			*ptr = iface{t: types.Typ[types.String], v: cp}
			return iface{}
		}
		panic(engineError{"json.Unmarshal of a non-string document into interface{}"})
	}
	return i.newError(fmt.Sprintf("json: cannot unmarshal %s into %s (JSON model compares Go types)", doc.t, X), nil)
}

func nativeOf[T any](v value) (T, bool) {
	var zero T
	switch x := v.(type) {
	case *native:
		t, ok := x.v.(T)
		return t, ok
	case *value:
		if x == nil {
			return zero, false
		}
		if n, ok := (*x).(*native); ok {
			t, ok := n.v.(T)
			return t, ok
		}
	case iface:
		return nativeOf[T](x.v)
	}
	return zero, false
}

func (i *interpreter) blobOfHandle(h *fhandle) []value {
	if !h.node.isBlob && len(h.node.segs) > 0 {
		panic(engineError{"reading tagged data content as bytes: " + h.path})
	}
	return h.node.blob
}

func init() {
	for k, v := range map[string]externalFn{
		// ---- FileInfo / DirEntry fake types
		"(reflect.fileinfo).Name":    func(fr *frame, a []value) value { return a[0].(structure)[0] },
		"(reflect.fileinfo).Size":    func(fr *frame, a []value) value { return a[0].(structure)[1] },
		"(reflect.fileinfo).ModTime": func(fr *frame, a []value) value { return mkTime(a[0].(structure)[2]) },
		"(reflect.fileinfo).IsDir":   func(fr *frame, a []value) value { return a[0].(structure)[3] },
		"(reflect.fileinfo).Mode": func(fr *frame, a []value) value {
			if a[0].(structure)[3].(bool) {
				return uint32(1<<31 | 0o755)
			}
			return uint32(0o644)
		},
		"(reflect.fileinfo).Sys":   func(fr *frame, a []value) value { return iface{} },
		"(reflect.direntry).Name":  func(fr *frame, a []value) value { return a[0].(structure)[0] },
		"(reflect.direntry).IsDir": func(fr *frame, a []value) value { return a[0].(structure)[3] },
		"(reflect.direntry).Type": func(fr *frame, a []value) value {
			if a[0].(structure)[3].(bool) {
				return uint32(1 << 31)
			}
			return uint32(0)
		},
		"(reflect.direntry).Info": func(fr *frame, a []value) value { return tuple{iface{fileInfoType, a[0]}, iface{}} },
		"(io/fs.FileMode).IsDir":     func(fr *frame, a []value) value { return asInt64(a[0])&(1<<31) != 0 },
		"(io/fs.FileMode).IsRegular": func(fr *frame, a []value) value { return asInt64(a[0])&(1<<31) == 0 },
		"(io/fs.FileMode).Perm":      func(fr *frame, a []value) value { return uint32(asInt64(a[0]) & 0o777) },

		// ---- os
		"os.Stat":  osStat,
		"os.Lstat": osStat,
		"os.IsNotExist": func(fr *frame, a []value) value { return fr.i.errIs(a[0], "ErrNotExist") },
		"os.IsExist":    func(fr *frame, a []value) value { return fr.i.errIs(a[0], "ErrExist") },
		"os.IsPermission": func(fr *frame, a []value) value { return fr.i.errIs(a[0], "ErrPermission") },
		"os.MkdirAll": func(fr *frame, a []value) value {
			i := fr.i
			p := i.fsPath(a[0])
			fs := i.world.FS()
			var missing []string
			for q := p; q != "/" && q != "."; q = filepath.Dir(q) {
				n := fs.nodes[q]
				if n == nil {
					missing = append(missing, q)
				} else if !n.dir {
					i.fsOp("mkdirall", p, false)
					return i.pathError("mkdir", q, "invalid")
				}
			}
			i.fsOp("mkdirall", p, len(missing) > 0)
			for k := len(missing) - 1; k >= 0; k-- {
				fs.nodes[missing[k]] = &fnode{dir: true, size: int64(0), mtime: i.now()}
				i.touchDir(missing[k])
			}
			return iface{}
		},
		"os.Mkdir": func(fr *frame, a []value) value {
			i := fr.i
			p := i.fsPath(a[0])
			fs := i.world.FS()
			if fs.nodes[p] != nil {
				i.fsOp("mkdir", p, false)
				return i.pathError("mkdir", p, "exist")
			}
			if !fs.parentOK(p) {
				i.fsOp("mkdir", p, false)
				return i.pathError("mkdir", p, "notexist")
			}
			i.fsOp("mkdir", p, true)
			fs.nodes[p] = &fnode{dir: true, size: int64(0), mtime: i.now()}
			i.touchDir(p)
			return iface{}
		},
		"os.Create":   func(fr *frame, a []value) value { return fr.i.fsOpen(fr.i.fsPath(a[0]), oRDWR|oCREATE|oTRUNC) },
		"os.Open":     func(fr *frame, a []value) value { return fr.i.fsOpen(fr.i.fsPath(a[0]), 0) },
		"os.OpenFile": func(fr *frame, a []value) value { return fr.i.fsOpen(fr.i.fsPath(a[0]), int(asInt64(a[1]))) },
		"os.WriteFile": func(fr *frame, a []value) value {
			i := fr.i
			p := i.fsPath(a[0])
			r := i.fsOpen(p, oWRONLY|oCREATE|oTRUNC).(tuple)
			if e := r[1].(iface); e.t != nil {
				return e
			}
			h := handleOf(r[0])
			i.fsOp("write", p, true)
			h.node.blob = append([]value(nil), a[1].([]value)...)
			h.node.isBlob = true
			h.node.size = int64(len(h.node.blob))
			h.node.mtime = i.now()
			return iface{}
		},
		"os.ReadFile": func(fr *frame, a []value) value {
			i := fr.i
			p := i.fsPath(a[0])
			i.fsOp("read", p, false)
			n := i.world.FS().nodes[p]
			if n == nil || n.dir {
				return tuple{[]value(nil), i.pathError("open", p, "notexist")}
			}
			if !n.isBlob && len(n.segs) > 0 {
				panic(engineError{"os.ReadFile of tagged data content: " + p})
			}
			return tuple{append([]value(nil), n.blob...), iface{}}
		},
		"os.Rename": func(fr *frame, a []value) value {
			i := fr.i
			src, dst := i.fsPath(a[0]), i.fsPath(a[1])
			fs := i.world.FS()
			n := fs.nodes[src]
			if n == nil {
				i.fsOp("rename", src, false)
				return i.pathError("rename", src, "notexist")
			}
			if !fs.parentOK(dst) {
				i.fsOp("rename", src, false)
				return i.pathError("rename", dst, "notexist")
			}
			if dn := fs.nodes[dst]; dn != nil && dn.dir && (!n.dir || len(fs.children(dst)) > 0) {
				// a file cannot replace a directory; a directory only an empty one
				i.fsOp("rename", src, false)
				return i.pathError("rename", dst, "exist")
			}
			i.fsOp("rename", src, true)
			i.fsOp("rename-to", dst, false)
			if n.dir {
				// move the subtree
				var moves [][2]string
				for p := range fs.nodes {
					if p == src || strings.HasPrefix(p, src+"/") {
						moves = append(moves, [2]string{p, dst + p[len(src):]})
					}
				}
				tmp := map[string]*fnode{}
				for _, m := range moves {
					tmp[m[1]] = fs.nodes[m[0]]
					delete(fs.nodes, m[0])
				}
				for p, nd := range tmp {
					fs.nodes[p] = nd
				}
			} else {
				delete(fs.nodes, src)
				fs.nodes[dst] = n
			}
			i.touchDir(src)
			i.touchDir(dst)
			return iface{}
		},
		"os.Remove": func(fr *frame, a []value) value {
			i := fr.i
			p := i.fsPath(a[0])
			fs := i.world.FS()
			n := fs.nodes[p]
			if n == nil {
				i.fsOp("remove", p, false)
				return i.pathError("remove", p, "notexist")
			}
			if n.dir && len(fs.children(p)) > 0 {
				i.fsOp("remove", p, false)
				return i.pathError("remove", p, "exist")
			}
			i.fsOp("remove", p, true)
			delete(fs.nodes, p)
			i.touchDir(p)
			return iface{}
		},
		"os.RemoveAll": func(fr *frame, a []value) value {
			i := fr.i
			p := i.fsPath(a[0])
			fs := i.world.FS()
			i.fsOp("removeall", p, fs.nodes[p] != nil)
			for q := range fs.nodes {
				if q == p || strings.HasPrefix(q, p+"/") {
					delete(fs.nodes, q)
				}
			}
			return iface{}
		},
		"os.ReadDir": func(fr *frame, a []value) value {
			i := fr.i
			p := i.fsPath(a[0])
			fs := i.world.FS()
			i.fsOp("readdir", p, false)
			n := fs.nodes[p]
			if n == nil || !n.dir {
				return tuple{[]value(nil), i.pathError("open", p, "notexist")}
			}
			var out []value
			for _, c := range fs.children(p) {
				cn := fs.nodes[c]
				out = append(out, iface{dirEntryType, structure{filepath.Base(c), cn.size, cn.mtime, cn.dir}})
			}
			return tuple{out, iface{}}
		},
		"os.Chtimes": func(fr *frame, a []value) value {
			i := fr.i
			p := i.fsPath(a[0])
			n := i.world.FS().nodes[p]
			if n == nil {
				i.fsOp("chtimes", p, false)
				return i.pathError("chtimes", p, "notexist")
			}
			i.fsOp("chtimes", p, true)
			n.mtime = timeNS(a[2])
			return iface{}
		},
		"os.Getwd":    func(fr *frame, a []value) value { return tuple{"/work", iface{}} },
		"os.TempDir":  func(fr *frame, a []value) value { return "/tmp" },
		"os.Getpid":   func(fr *frame, a []value) value { return 4242 },
		"os.Hostname": func(fr *frame, a []value) value { return tuple{"host", iface{}} },

		// ---- *os.File
		"(*os.File).Close": func(fr *frame, a []value) value {
			h := handleOf(a[0])
			h.closed = true
			return iface{}
		},
		"(*os.File).Name": func(fr *frame, a []value) value { return handleOf(a[0]).path },
		"(*os.File).Sync": func(fr *frame, a []value) value { return iface{} },
		"(*os.File).Stat": func(fr *frame, a []value) value {
			h := handleOf(a[0])
			return tuple{fr.i.mkFileInfo(h.path, h.node), iface{}}
		},
		"(*os.File).Seek": func(fr *frame, a []value) value {
			i := fr.i
			h := handleOf(a[0])
			switch asInt64(a[2]) {
			case 0:
				h.pos = a[1]
			case 1:
				h.pos = binop(i, tokenADD, nil, h.pos, a[1])
			case 2:
				h.pos = binop(i, tokenADD, nil, h.node.size, a[1])
			}
			return tuple{h.pos, iface{}}
		},
		"(*os.File).Truncate": func(fr *frame, a []value) value {
			i := fr.i
			h := handleOf(a[0])
			i.fsOp("truncate", h.path, true)
			nd := h.node
			if nd.isBlob {
				n, ok := a[1].(int64)
				if !ok || int(n) > len(nd.blob) {
					if len(nd.blob) == 0 {
						nd.isBlob = false
					} else {
						panic(engineError{"Truncate growing a blob file"})
					}
				} else {
					nd.blob = nd.blob[:n]
				}
			}
			// shrinking drops / cuts segments beyond the new size
			var out []fseg
			for _, s := range nd.segs {
				send := binop(i, tokenADD, nil, s.off, s.n)
				if i.truth("fs:trunc-keep", binop(i, tokenLEQ, nil, send, a[1])) {
					out = append(out, s)
				} else if i.truth("fs:trunc-cut", binop(i, tokenLSS, nil, s.off, a[1])) {
					out = append(out, fseg{s.off, binop(i, tokenSUB, nil, a[1], s.off), s.tag, s.src})
				}
			}
			nd.segs = out
			nd.size = a[1]
			nd.mtime = i.now()
			return iface{}
		},
		"(*os.File).Write": func(fr *frame, a []value) value {
			i := fr.i
			h := handleOf(a[0])
			b := a[1].([]value)
			i.fsOp("write", h.path, true)
			nd := h.node
			if !nd.isBlob && len(nd.segs) > 0 {
				panic(engineError{"byte write into a tagged data file: " + h.path})
			}
			nd.isBlob = true
			pos, ok := h.pos.(int64)
			if !ok {
				panic(engineError{"byte write at a symbolic offset"})
			}
			if h.app {
				pos = int64(len(nd.blob))
			}
			for int64(len(nd.blob)) < pos {
				nd.blob = append(nd.blob, uint8(0))
			}
			nd.blob = append(nd.blob[:pos], append(append([]value(nil), b...), nd.blob[min64(int64(len(nd.blob)), pos+int64(len(b))):]...)...)
			h.pos = pos + int64(len(b))
			nd.size = int64(len(nd.blob))
			nd.mtime = i.now()
			return tuple{len(b), iface{}}
		},
		"(*os.File).WriteString": func(fr *frame, a []value) value {
			return externals["(*os.File).Write"](fr, []value{a[0], strBytes(a[1])})
		},
		"(*os.File).Read": func(fr *frame, a []value) value {
			i := fr.i
			h := handleOf(a[0])
			p := a[1].([]value)
			i.fsOp("read", h.path, false)
			if h.node.isBlob || len(h.node.segs) == 0 {
				pos := h.pos.(int64)
				blob := h.node.blob
				if pos >= int64(len(blob)) {
					return tuple{0, i.ioEOF()}
				}
				n := copy(p, blob[pos:])
				h.pos = pos + int64(n)
				return tuple{n, iface{}}
			}
			panic(engineError{"(*os.File).Read on tagged data content: " + h.path})
		},
		"(*os.File).Readdir": func(fr *frame, a []value) value {
			i := fr.i
			h := handleOf(a[0])
			fs := i.world.FS()
			var out []value
			for _, c := range fs.children(h.path) {
				out = append(out, i.mkFileInfo(c, fs.nodes[c]))
			}
			return tuple{out, iface{}}
		},

		// ---- io
		"io.Copy":    ioCopy,
		"io.ReadAll": ioReadAll,
		"io/ioutil.ReadAll": ioReadAll,

		// ---- path/filepath.Walk
		"path/filepath.Walk": func(fr *frame, a []value) value {
			i := fr.i
			root := i.fsPath(a[0])
			fs := i.world.FS()
			n := fs.nodes[root]
			i.fsOp("walk", root, false)
			if n == nil {
				r := call(i, fr, 0, a[1], []value{a[0], iface{}, i.pathError("lstat", root, "notexist")})
				return r
			}
			skipDir := i.sentinel("io/fs", "SkipDir")
			skipAll := i.sentinel("io/fs", "SkipAll")
			var walk func(p string) value
			walk = func(p string) value {
				nd := fs.nodes[p]
				if nd == nil {
					return iface{} // removed during the walk
				}
				r := call(i, fr, 0, a[1], []value{p, i.mkFileInfo(p, nd), iface{}}).(iface)
				if r.t != nil {
					if nd.dir && i.sameErr(r, skipDir) {
						return iface{}
					}
					return r
				}
				if nd.dir {
					for _, c := range fs.children(p) {
						if e := walk(c).(iface); e.t != nil {
							if i.sameErr(e, skipDir) {
								break
							}
							return e
						}
					}
				}
				return iface{}
			}
			r := walk(root).(iface)
			if r.t != nil && (i.sameErr(r, skipDir) || i.sameErr(r, skipAll)) {
				return iface{}
			}
			return r
		},

		// ---- encoding/json (opaque documents)
		"encoding/json.Marshal":       func(fr *frame, a []value) value { return fr.i.jsonMarshal(a[0]) },
		"encoding/json.MarshalIndent": func(fr *frame, a []value) value { return fr.i.jsonMarshal(a[0]) },
		"encoding/json.Unmarshal":     func(fr *frame, a []value) value { return fr.i.jsonUnmarshal(a[0], a[1]) },
		"encoding/json.NewDecoder": func(fr *frame, a []value) value {
			var cell value = &native{&jsonDecoder{r: a[0]}}
			return &cell
		},
		"(*encoding/json.Decoder).Decode": func(fr *frame, a []value) value {
			i := fr.i
			d, _ := nativeOf[*jsonDecoder](a[0])
			if h, ok := nativeOf[*fhandle](d.r); ok {
				i.fsOp("read", h.path, false)
				blob := i.blobOfHandle(h)
				if d.done || len(blob) == 0 {
					return i.ioEOF()
				}
				d.done = true
				return i.jsonUnmarshal(blob, a[1])
			}
			return i.jsonDecodeFromReader(d, a[1])
		},
		"encoding/json.NewEncoder": func(fr *frame, a []value) value {
			var cell value = &native{&jsonDecoder{r: a[0]}}
			return &cell
		},
		"(*encoding/json.Encoder).Encode": func(fr *frame, a []value) value {
			i := fr.i
			d, _ := nativeOf[*jsonDecoder](a[0])
			doc := i.jsonMarshal(a[1]).(tuple)[0]
			if _, ok := nativeOf[*fhandle](d.r); ok {
				return externals["(*os.File).Write"](fr, []value{d.r.(iface).v, doc}).(tuple)[1]
			}
			// an ordinary interpreted writer (pipe, response writer): its real
			// Write gets the document as one element
			if wr, ok := d.r.(iface); ok && wr.t != nil {
				res, ok := i.callMethod(wr, "Write", doc)
				if !ok {
					panic(engineError{"json.Encoder: the writer has no Write method"})
				}
				return res.(tuple)[1]
			}
			panic(engineError{"json.Encoder over an unmodelled writer"})
		},
		"(*encoding/json.Encoder).SetIndent": nop,

		// ---- crypto/md5
		"crypto/md5.New": func(fr *frame, a []value) value {
			i := fr.i
			pkg := i.prog.ImportedPackage("crypto/md5")
			dt := pkg.Type("digest").Type()
			var cell value = &native{&md5state{}}
			return iface{types.NewPointer(dt), &cell}
		},
		"(*crypto/md5.digest).Write": func(fr *frame, a []value) value {
			st, _ := nativeOf[*md5state](a[0])
			b := a[1].([]value)
			s := symstr{b}
			if c, ok := s.concrete(); ok {
				st.data = append(st.data, c)
			} else {
				st.data = append(st.data, symMarker)
			}
			return tuple{len(b), iface{}}
		},
		"(*crypto/md5.digest).Sum": func(fr *frame, a []value) value {
			st, _ := nativeOf[*md5state](a[0])
			hex := st.hex
			if hex == "" {
				hex = "md5s-" + strings.Join(st.data, "")
			}
			return []value{&native{&md5sum{hex}}}
		},
		"(*crypto/md5.digest).Reset": func(fr *frame, a []value) value {
			st, _ := nativeOf[*md5state](a[0])
			st.hex, st.data = "", nil
			return nil
		},
	} {
		externals[k] = v
	}
}

type jsonDecoder struct {
	r    value
	done bool
}

func min64(a, b int64) int64 {
	if a < b {
		return a
	}
	return b
}

func (i *interpreter) sentinel(pkg, name string) value {
	p := i.prog.ImportedPackage(pkg)
	if p == nil {
		return iface{}
	}
	g := p.Var(name)
	if g == nil {
		return iface{}
	}
	return *i.global(g)
}

func (i *interpreter) sameErr(a iface, b value) bool {
	bi, ok := b.(iface)
	if !ok || bi.t == nil || !sameType(a.t, bi.t) {
		return false
	}
	r, ok := i.equalsV(a.t, a.v, bi.v).(bool)
	return ok && r
}

func (i *interpreter) ioEOF() value { return i.sentinel("io", "EOF") }

func osStat(fr *frame, a []value) value {
	i := fr.i
	p := i.fsPath(a[0])
	i.fsOp("stat", p, false)
	n := i.world.FS().nodes[p]
	if n == nil {
		return tuple{iface{}, i.pathError("stat", p, "notexist")}
	}
	return tuple{i.mkFileInfo(p, n), iface{}}
}

// ioCopy models io.Copy for the endpoints the code under test uses.
func ioCopy(fr *frame, a []value) value {
	i := fr.i
	dst, src := a[0], a[1]
	if dh, ok := nativeOf[*fhandle](dst); ok {
		if cr, ok := nativeOf[*creader](src); ok {
			// tagged content into a file at the handle's position
			if cr.done {
				return tuple{int64(0), iface{}}
			}
			cr.done = true
			i.fsOp("write", dh.path, true)
			i.writeSeg(dh.node, dh.pos, cr.n, cr.tag, cr.src)
			dh.pos = binop(i, tokenADD, nil, dh.pos, cr.n)
			if cr.fail {
				return tuple{cr.n, i.newError("unexpected EOF (reader failed)", nil)}
			}
			return tuple{cr.n, iface{}}
		}
		if sh, ok := nativeOf[*fhandle](src); ok {
			i.fsOp("read", sh.path, false)
			i.fsOp("write", dh.path, true)
			if p, ok := sh.pos.(int64); !ok || p != 0 {
				panic(engineError{"io.Copy file to file from a non-zero position"})
			}
			cloneNodeContent(dh.node, sh.node)
			dh.node.mtime = i.now()
			sh.pos = sh.node.size
			return tuple{sh.node.size, iface{}}
		}
	}
	if st, ok := nativeOf[*md5state](dst); ok {
		if cr, ok := nativeOf[*creader](src); ok {
			// hashing tagged content: "md5-<tag>" iff it is the whole version
			fs := i.world.FS()
			full, known := fs.versions[cr.tag]
			if known && !cr.done && i.truth("md5:from0", i.equalsV(types.Typ[types.Int64], cr.src, int64(0))) &&
				i.truth("md5:whole", i.equalsV(types.Typ[types.Int64], cr.n, full)) {
				st.hex = "md5-" + cr.tag
			} else {
				fs.badHash++
				st.hex = fmt.Sprintf("md5-other-%d", fs.badHash)
			}
			cr.done = true
			return tuple{cr.n, iface{}}
		}
		if sh, ok := nativeOf[*fhandle](src); ok {
			i.fsOp("read", sh.path, false)
			if sh.node.isBlob || len(sh.node.segs) == 0 {
				s := symstr{sh.node.blob}
				if c, ok := s.concrete(); ok {
					st.hex = "md5s-" + c
				} else {
					st.hex = "md5s-" + symMarker
				}
				if sz, ok := sh.node.size.(int64); !ok || sz != int64(len(sh.node.blob)) {
					// truncated but never written: a file of zero bytes
					i.world.FS().badHash++
					st.hex = fmt.Sprintf("md5-other-%d", i.world.FS().badHash)
				}
			} else {
				st.hex = i.contentHash(sh.node)
			}
			return tuple{sh.node.size, iface{}}
		}
	}
	if st, ok := nativeOf[*md5state](dst); ok {
		if _, isCR := nativeOf[*creader](src); !isCR {
			if _, isFH := nativeOf[*fhandle](src); !isFH {
				if sr, ok := src.(iface); ok && sr.t != nil {
					return i.copyReaderToMD5(st, sr)
				}
			}
		}
	}
	if dh, ok := nativeOf[*fhandle](dst); ok {
		if _, isCR := nativeOf[*creader](src); !isCR {
			if _, isFH := nativeOf[*fhandle](src); !isFH {
				if sr, ok := src.(iface); ok && sr.t != nil {
					return i.copyReaderToFile(dh, dst, sr)
				}
			}
		}
	}
	if _, ok := nativeOf[*creader](src); !ok {
		if _, ok := nativeOf[*fhandle](src); !ok {
			if _, ok := nativeOf[*fhandle](dst); !ok {
				if _, ok := nativeOf[*md5state](dst); !ok {
					return i.genericCopy(dst, src)
				}
			}
		}
	}
	panic(engineError{fmt.Sprintf("io.Copy between unmodelled endpoints (%T -> %T) at %s", src, dst, i.where())})
}

func ioReadAll(fr *frame, a []value) value {
	i := fr.i
	if h, ok := nativeOf[*fhandle](a[0]); ok {
		i.fsOp("read", h.path, false)
		blob := i.blobOfHandle(h)
		pos, _ := h.pos.(int64)
		if pos > int64(len(blob)) {
			pos = int64(len(blob))
		}
		h.pos = int64(len(blob))
		return tuple{append([]value(nil), blob[pos:]...), iface{}}
	}
	if r, ok := a[0].(iface); ok && r.t != nil {
		if _, isCR := nativeOf[*creader](a[0]); !isCR {
			return i.genericReadAll(r)
		}
	}
	panic(engineError{"io.ReadAll over an unmodelled reader at " + i.where()})
}
