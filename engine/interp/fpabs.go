package interp

// Solver-validated summary of int64(float64(a) * c) for a constant 0 < c < 1
// (payload.NewBin computes its 10% slack this way). Floating-point
// multiplication in the path condition makes every later query cost seconds,
// so the product is replaced by a fresh integer f together with the facts
//
//	0 ≤ a < 2^53  ⇒  0 ≤ f ≤ a  ∧  (f ≥ 1 ⇔ a ≥ T)
//
// where T is the least integer with int64(float64(T)*c) ≥ 1. The facts are not
// assumed: they are checked once per worker against the exact floating-point
// term by the solver (unsat of the negation); if that check is not unsat the
// exact term is kept. The summary over-approximates the real value, so it can
// only produce spurious counterexamples (caught by native replay), never hide
// a real one.

import (
	"fmt"
	"math"
)

type fpAbs struct {
	f     *Term
	facts *Term
}

func (i *interpreter) abstractScaledInt(t *Term, dw int, dsigned bool) (*Term, bool) {
	if t.op != "fp.mul" || dw != 64 || !dsigned {
		return nil, false
	}
	var ia, c *Term
	switch {
	case t.args[0].op == "to_fp_s" && t.args[1].IsConst():
		ia, c = t.args[0].args[0], t.args[1]
	case t.args[1].op == "to_fp_s" && t.args[0].IsConst():
		ia, c = t.args[1].args[0], t.args[0]
	default:
		return nil, false
	}
	if ia.sort.Width != 64 {
		return nil, false
	}
	cv := math.Float64frombits(c.cval)
	if !(cv > 0 && cv < 1) {
		return nil, false
	}
	w := i.path.w
	if w.fpabs == nil {
		w.fpabs = map[int]*fpAbs{}
	}
	ts := i.ts()
	if a, ok := w.fpabs[t.id]; ok {
		if a == nil {
			return nil, false
		}
		i.path.addPC(a.facts)
		return a.f, true
	}
	// threshold T
	T := int64(math.Ceil(1 / cv))
	for T > 1 && int64(float64(T-1)*cv) >= 1 {
		T--
	}
	for int64(float64(T)*cv) < 1 {
		T++
	}
	exact := ts.FPToInt(t, 64, true)
	mk := func(f *Term) *Term {
		pre := ts.And(ts.BVCmp("bvsle", ts.BV(0, 64), ia), ts.BVCmp("bvslt", ia, ts.BV(1<<53, 64)))
		post := ts.And(ts.And(ts.BVCmp("bvsle", ts.BV(0, 64), f), ts.BVCmp("bvsle", f, ia)),
			ts.Eq(ts.BVCmp("bvsge", f, ts.BV(1, 64)), ts.BVCmp("bvsge", ia, ts.BV(uint64(T), 64))))
		return ts.Or(ts.Not(pre), post)
	}
	// validate against the exact term with a bit-blasting back end (cvc5 is
	// the fastest here on FP); pc-independent, so checked with an empty pc
	v, err := NewSolver("cvc5", ts, 120000)
	if err != nil {
		w.fpabs[t.id] = nil
		return nil, false
	}
	res, _ := v.check1(nil, []*Term{ts.Not(mk(exact))}, nil, 120000)
	v.Close()
	w.solver.Stats.Queries++
	w.solver.Stats.Time += v.Stats.Time
	if res != Unsat {
		w.fpabs[t.id] = nil
		i.path.notes = append(i.path.notes, "fp-summary-not-validated")
		return nil, false
	}
	w.solver.Stats.Unsat++
	f := ts.Var(fmt.Sprintf("fpscaled!%d", t.id), bvSort(64))
	a := &fpAbs{f: f, facts: mk(f)}
	w.fpabs[t.id] = a
	i.path.notes = append(i.path.notes, "fp-summary-validated")
	i.path.addPC(a.facts)
	return a.f, true
}
