package interp

// Crash images: the file-system state at the instant RunUntilCrash cut the
// scenario. A counterexample carries the image (with solver values filled in)
// so that the native replay can materialise exactly that on-disk state and run
// the recovery half against the real, compiled code.

import (
	"encoding/json"
	"fmt"
	"go/types"
	"sort"
	"strconv"
	"strings"
)

type imageFile struct {
	Path  string
	Dir   bool
	Size  value
	Segs  []fseg
	Blob  []value
	IsDoc bool
}

type crashImage struct {
	Call  int
	Files []imageFile
}

// ImageOut is the JSON form written into the replay file.
type ImageOut struct {
	Call  int            `json:"call"`
	Files []ImageFileOut `json:"files"`
}

type ImageFileOut struct {
	Path string     `json:"path"` // relative to the temp root
	Dir  bool       `json:"dir,omitempty"`
	Size int64      `json:"size"`
	Segs []ImageSeg `json:"segs,omitempty"`
	Text string     `json:"text,omitempty"` // byte content of small files (JSON documents encoded)
}

type ImageSeg struct {
	Off int64  `json:"off"`
	N   int64  `json:"n"`
	Tag string `json:"tag"`
	Src int64  `json:"src"`
}

func (i *interpreter) captureImage(call int) {
	fs := i.world.FS()
	img := &crashImage{Call: call}
	var paths []string
	for p := range fs.nodes {
		if strings.HasPrefix(p, "/vroot/") {
			paths = append(paths, p)
		}
	}
	sort.Strings(paths)
	for _, p := range paths {
		n := fs.nodes[p]
		f := imageFile{Path: strings.TrimPrefix(p, "/vroot/"), Dir: n.dir, Size: n.size}
		if !n.dir {
			f.Segs = append([]fseg(nil), n.segs...)
			if n.isBlob {
				f.Blob = append([]value(nil), n.blob...)
				f.IsDoc = docOf(n.blob) != nil
			}
		}
		img.Files = append(img.Files, f)
	}
	i.path.images = append(i.path.images, img)
}

func valueTerms(i *interpreter, v value, out *[]*Term) {
	switch x := v.(type) {
	case symv:
		*out = append(*out, x.t)
	case symstr:
		for _, b := range x.b {
			valueTerms(i, b, out)
		}
	case structure:
		for _, e := range x {
			valueTerms(i, e, out)
		}
	case array:
		for _, e := range x {
			valueTerms(i, e, out)
		}
	case []value:
		for _, e := range x {
			valueTerms(i, e, out)
		}
	case *value:
		if x != nil {
			valueTerms(i, *x, out)
		}
	case iface:
		valueTerms(i, x.v, out)
	case *native:
		if d, ok := x.v.(*jsonDoc); ok {
			valueTerms(i, d.v, out)
		}
	}
}

func (p *Path) imageTerms() []*Term {
	var out []*Term
	for _, img := range p.images {
		for _, f := range img.Files {
			valueTerms(nil, f.Size, &out)
			for _, s := range f.Segs {
				valueTerms(nil, s.off, &out)
				valueTerms(nil, s.n, &out)
				valueTerms(nil, s.src, &out)
			}
			valueTerms(nil, f.Blob, &out)
		}
	}
	return out
}

func evalInt(model map[string]uint64, v value) int64 {
	switch x := v.(type) {
	case symv:
		bits := model[x.t.ref()]
		if x.k == types.Bool {
			return int64(bits)
		}
		w, signed := kindWidth(x.k)
		if signed {
			return sext(bits, w)
		}
		return int64(bits)
	case bool:
		if x {
			return 1
		}
		return 0
	case nil:
		return 0
	}
	return asInt64(v)
}

// encodeJSON renders an interpreter value of static type t the way
// encoding/json would (struct tags, omitted unexported fields), with symbolic
// scalars replaced by their model values.
func encodeJSON(v value, t types.Type, model map[string]uint64) string {
	if n, ok := t.(*types.Named); ok && n.Obj().Name() == "NanoTime" {
		return `"0+0"`
	}
	switch u := t.Underlying().(type) {
	case *types.Basic:
		switch {
		case u.Info()&types.IsString != 0:
			switch s := v.(type) {
			case string:
				return strconv.Quote(s)
			case symstr:
				b := make([]byte, len(s.b))
				for k := range s.b {
					b[k] = byte(evalInt(model, s.b[k]))
				}
				return strconv.Quote(string(b))
			}
		case u.Info()&types.IsBoolean != 0:
			if evalInt(model, v) != 0 {
				return "true"
			}
			return "false"
		case u.Info()&types.IsInteger != 0:
			return strconv.FormatInt(evalInt(model, v), 10)
		}
		return "null"
	case *types.Pointer:
		p, _ := v.(*value)
		if p == nil {
			return "null"
		}
		return encodeJSON(*p, u.Elem(), model)
	case *types.Slice:
		sl, _ := v.([]value)
		if sl == nil {
			return "null"
		}
		if b, ok := u.Elem().Underlying().(*types.Basic); ok && b.Kind() == types.Byte {
			return "null"
		}
		parts := make([]string, len(sl))
		for k := range sl {
			parts[k] = encodeJSON(sl[k], u.Elem(), model)
		}
		return "[" + strings.Join(parts, ",") + "]"
	case *types.Struct:
		s, _ := v.(structure)
		var parts []string
		for k := 0; k < u.NumFields(); k++ {
			f := u.Field(k)
			if !f.Exported() {
				continue
			}
			name := f.Name()
			tag := u.Tag(k)
			if idx := strings.Index(tag, `json:"`); idx >= 0 {
				rest := tag[idx+6:]
				if e := strings.Index(rest, `"`); e >= 0 {
					tn := strings.Split(rest[:e], ",")[0]
					if tn == "-" {
						continue
					}
					if tn != "" {
						name = tn
					}
				}
			}
			parts = append(parts, strconv.Quote(name)+":"+encodeJSON(s[k], f.Type(), model))
		}
		return "{" + strings.Join(parts, ",") + "}"
	case *types.Map:
		m, _ := v.(map[value]value)
		var keys []string
		for k := range m {
			if ks, ok := k.(string); ok {
				keys = append(keys, ks)
			}
		}
		sort.Strings(keys)
		var parts []string
		for _, k := range keys {
			parts = append(parts, strconv.Quote(k)+":"+encodeJSON(m[k], u.Elem(), model))
		}
		return "{" + strings.Join(parts, ",") + "}"
	case *types.Interface:
		if e, ok := v.(iface); ok && e.t != nil {
			return encodeJSON(e.v, e.t, model)
		}
		return "null"
	}
	return "null"
}

func (p *Path) imagesWithModel(model map[string]uint64) []ImageOut {
	var out []ImageOut
	for _, img := range p.images {
		o := ImageOut{Call: img.Call}
		for _, f := range img.Files {
			fo := ImageFileOut{Path: f.Path, Dir: f.Dir, Size: evalInt(model, f.Size)}
			for _, s := range f.Segs {
				fo.Segs = append(fo.Segs, ImageSeg{Off: evalInt(model, s.off), N: evalInt(model, s.n), Tag: s.tag, Src: evalInt(model, s.src)})
			}
			if f.Blob != nil {
				if d := docOf(f.Blob); d != nil {
					if d.t != nil {
						fo.Text = encodeJSON(d.v, d.t, model)
					}
				} else {
					b := make([]byte, len(f.Blob))
					for k := range f.Blob {
						b[k] = byte(evalInt(model, f.Blob[k]))
					}
					fo.Text = string(b)
				}
				fo.Size = int64(len(fo.Text))
			}
			o.Files = append(o.Files, fo)
		}
		out = append(out, o)
	}
	return out
}

func imagesJSON(imgs []ImageOut) string {
	b, _ := json.Marshal(imgs)
	return string(b)
}

var _ = fmt.Sprintf
