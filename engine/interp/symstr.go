package interp

// Symbolic-byte strings: concrete length, each byte a uint8 or a symbolic
// uint8. No SMT string theory is used.

import (
	"fmt"
	"go/token"
	"go/types"
)

type symstr struct{ b []value }

func (s symstr) concrete() (string, bool) {
	out := make([]byte, len(s.b))
	for k, v := range s.b {
		c, ok := v.(uint8)
		if !ok {
			return "", false
		}
		out[k] = c
	}
	return string(out), true
}

// strBytes returns the bytes of a string or symstr value.
func strBytes(v value) []value {
	switch v := v.(type) {
	case string:
		out := make([]value, len(v))
		for k := 0; k < len(v); k++ {
			out[k] = v[k]
		}
		return out
	case symstr:
		return v.b
	}
	panic(engineError{fmt.Sprintf("strBytes: %T", v)})
}

// mkstr builds a string value from bytes, collapsing to a Go string when all
// bytes are concrete.
func mkstr(b []value) value {
	s := symstr{b}
	if c, ok := s.concrete(); ok {
		return c
	}
	return s
}

func isStr(v value) bool {
	switch v.(type) {
	case string, symstr:
		return true
	}
	return false
}

func strLen(v value) int {
	switch v := v.(type) {
	case string:
		return len(v)
	case symstr:
		if hasDecTok(v.b) {
			panic(engineError{"len of a string with a decimal token (digits are not modelled)"})
		}
		return len(v.b)
	}
	panic(engineError{fmt.Sprintf("strLen: %T", v)})
}

func (i *interpreter) byteTerm(v value) *Term {
	switch v := v.(type) {
	case uint8:
		return i.ts().BV(uint64(v), 8)
	case symv:
		return v.t
	}
	panic(engineError{fmt.Sprintf("byteTerm: %T", v)})
}

// strEqTerm is the term for a == b (strings of concrete lengths).
func (i *interpreter) strEqTerm(a, b []value) *Term {
	ts := i.ts()
	if len(a) != len(b) {
		return ts.Bool(false)
	}
	acc := ts.Bool(true)
	for k := range a {
		acc = ts.And(acc, ts.Eq(i.byteTerm(a[k]), i.byteTerm(b[k])))
		if c, ok := acc.boolConst(); ok && !c {
			return acc
		}
	}
	return acc
}

// strLtTerm is the term for a < b (lexicographic on bytes).
func (i *interpreter) strLtTerm(a, b []value) *Term {
	ts := i.ts()
	// from the end: lt_k = a[k]<b[k] ∨ (a[k]==b[k] ∧ lt_{k+1})
	n := len(a)
	if len(b) < n {
		n = len(b)
	}
	acc := ts.Bool(len(a) < len(b))
	for k := n - 1; k >= 0; k-- {
		x, y := i.byteTerm(a[k]), i.byteTerm(b[k])
		acc = ts.Or(ts.BVCmp("bvult", x, y), ts.And(ts.Eq(x, y), acc))
	}
	return acc
}

func (i *interpreter) symstrBinop(op token.Token, x, y value) value {
	ts := i.ts()
	a, b := strBytes(x), strBytes(y)
	switch op {
	case token.ADD:
		out := make([]value, 0, len(a)+len(b))
		out = append(out, a...)
		out = append(out, b...)
		return mkstr(out)
	case token.EQL:
		return mkval(i.strEqTerm(a, b), types.Bool)
	case token.NEQ:
		return mkval(ts.Not(i.strEqTerm(a, b)), types.Bool)
	case token.LSS:
		return mkval(i.strLtTerm(a, b), types.Bool)
	case token.GTR:
		return mkval(i.strLtTerm(b, a), types.Bool)
	case token.LEQ:
		return mkval(ts.Not(i.strLtTerm(b, a)), types.Bool)
	case token.GEQ:
		return mkval(ts.Not(i.strLtTerm(a, b)), types.Bool)
	}
	panic(engineError{fmt.Sprintf("symstrBinop: %s", op)})
}

func (i *interpreter) sliceSymstr(s symstr, lo, hi value) value {
	l, h := 0, len(s.b)
	if lo != nil {
		l = int(asInt64(i.concreteIdx(lo)))
	}
	if hi != nil {
		h = int(asInt64(i.concreteIdx(hi)))
	}
	if l < 0 || h > len(s.b) || l > h {
		panic(targetPanic{iface{i.eng.runtimeErrorString, fmt.Sprintf("slice bounds out of range [%d:%d] with length %d", l, h, len(s.b))}})
	}
	return mkstr(s.b[l:h])
}

// symstrIter ranges over a symbolic string; symbolic bytes are assumed ASCII
// (bound B-ASCII, added to the path condition).
type symstrIter struct {
	s   symstr
	pos int
	i   *interpreter
}

func (it *symstrIter) next() tuple {
	if it.pos >= len(it.s.b) {
		return tuple{false, nil, nil}
	}
	k := it.pos
	it.pos++
	switch b := it.s.b[k].(type) {
	case uint8:
		if b >= 0x80 {
			panic(engineError{"range over symbolic string with non-ASCII concrete byte"})
		}
		return tuple{true, k, rune(b)}
	case symv:
		if it.i == nil {
			panic(engineError{"symstrIter without interpreter"})
		}
		ts := it.i.ts()
		it.i.assume(mkval(ts.BVCmp("bvult", b.t, ts.BV(0x80, 8)), types.Bool))
		return tuple{true, k, mkval(ts.Resize(b.t, 32, false), types.Int32)}
	}
	panic(engineError{"symstrIter: bad byte"})
}
