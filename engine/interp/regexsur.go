package interp

// Submatch extraction over symbolic-byte strings by class surrogates: a
// regexp distinguishes input bytes only through the rune ranges of its
// compiled program (plus the word class for \b). Every symbolic byte is
// therefore decided against the cells of the partition those ranges induce on
// the ASCII bytes (a solver-checked fork per candidate cell, recorded in the
// path condition), the real regexp runs on a string of cell representatives,
// and the match indices it reports hold for every string of the same cells;
// sub-matches are cut out of the symbolic string by index. Non-ASCII bytes
// are outside (multi-byte runes would change the indices): the harness has to
// assume them away, otherwise the path is inconclusive.

import (
	"go/token"
	"go/types"
	"regexp/syntax"
	"sort"
)

func (m *mregexp) cellBounds() []int {
	if m.bounds != nil {
		return m.bounds
	}
	set := map[int]bool{0: true, 0x80: true}
	add := func(lo, hi rune) {
		if lo > 0x7f {
			return
		}
		if hi > 0x7f {
			hi = 0x7f
		}
		set[int(lo)] = true
		set[int(hi)+1] = true
	}
	for _, inst := range m.prog.Inst {
		switch inst.Op {
		case syntax.InstRune, syntax.InstRune1:
			rs := inst.Rune
			fold := syntax.Flags(inst.Arg)&syntax.FoldCase != 0
			if len(rs) == 1 {
				add(rs[0], rs[0])
				if fold {
					f := foldRune(rs[0])
					add(f, f)
				}
			} else {
				for k := 0; k+1 < len(rs); k += 2 {
					add(rs[k], rs[k+1])
				}
			}
		case syntax.InstRuneAnyNotNL:
			add('\n', '\n')
		case syntax.InstEmptyWidth:
			if syntax.EmptyOp(inst.Arg)&(syntax.EmptyWordBoundary|syntax.EmptyNoWordBoundary) != 0 {
				add('0', '9')
				add('A', 'Z')
				add('a', 'z')
				add('_', '_')
			}
			if syntax.EmptyOp(inst.Arg)&(syntax.EmptyBeginLine|syntax.EmptyEndLine) != 0 {
				add('\n', '\n')
			}
		}
	}
	for b := range set {
		m.bounds = append(m.bounds, b)
	}
	sort.Ints(m.bounds)
	return m.bounds
}

// regexSurrogate returns a concrete representative of s for the regexp m.
func (i *interpreter) regexSurrogate(m *mregexp, ss symstr) string {
	bounds := m.cellBounds()
	out := make([]byte, len(ss.b))
	u8 := types.Typ[types.Uint8]
	for k, b := range ss.b {
		switch bv := b.(type) {
		case uint8:
			out[k] = bv
		case symv:
			if !i.truth("regex-ascii", i.symBinop(token.LSS, bv, uint8(0x80))) {
				panic(engineError{"regexp submatch on a symbolic string with non-ASCII bytes (outside the claim; assume them away in the harness)"})
			}
			done := false
			for c := 0; c+1 < len(bounds) && !done; c++ {
				lo, hi := bounds[c], bounds[c+1] // [lo, hi)
				var in bool
				if hi-lo == 1 {
					in = i.truth("regex-cell", i.equalsV(u8, bv, uint8(lo)))
				} else if c+2 == len(bounds) {
					in = true // the last cell: everything else
				} else {
					in = i.truth("regex-cell", i.symBinop(token.LSS, bv, uint8(hi)))
					if in && lo > 0 {
						// cells are visited in ascending order, so bv >= lo here
					}
				}
				if in {
					rep := lo
					if rep == 0 {
						rep = 1
						if hi == 1 {
							rep = 0
						}
					}
					out[k] = byte(rep)
					done = true
				}
			}
		default:
			panic(engineError{"regexSurrogate: unexpected byte value"})
		}
	}
	return string(out)
}

func (i *interpreter) regexSubmatch(m *mregexp, s value) value {
	ss, ok := s.(symstr)
	if !ok {
		panic(engineError{"FindStringSubmatch: unexpected operand"})
	}
	rep := i.regexSurrogate(m, ss)
	idx := m.re.FindStringSubmatchIndex(rep)
	if idx == nil {
		return []value(nil)
	}
	out := make([]value, len(idx)/2)
	for k := range out {
		if idx[2*k] < 0 {
			out[k] = ""
			continue
		}
		out[k] = mkstr(append([]value(nil), ss.b[idx[2*k]:idx[2*k+1]]...))
	}
	return out
}
