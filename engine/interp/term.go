package interp

// SMT terms: hash-consed DAG with constant folding. One TermStore per worker
// (no locking). Sorts: Bool, (_ BitVec n), Float64, and the uninterpreted
// function "content byte" used by the file-system model.

import (
	"fmt"
	"math"
	"math/bits"
	"sort"
	"strconv"
	"strings"
)

type SortKind int

const (
	SBool SortKind = iota
	SBV
	SFP64
)

type Sort struct {
	Kind  SortKind
	Width int
}

func (s Sort) String() string {
	switch s.Kind {
	case SBool:
		return "Bool"
	case SBV:
		return fmt.Sprintf("(_ BitVec %d)", s.Width)
	case SFP64:
		return "(_ FloatingPoint 11 53)"
	}
	return "?"
}

var (
	sortBool = Sort{SBool, 0}
	sortFP   = Sort{SFP64, 0}
)

func bvSort(w int) Sort { return Sort{SBV, w} }

type Term struct {
	id   int
	op   string
	sort Sort
	args []*Term
	cval uint64 // const value (BV: masked; Bool: 0/1; FP: bits)
	name string // var / uf name
	p1   int    // extra int parameter (extract hi, extend amount)
	p2   int
}

func (t *Term) IsConst() bool { return t.op == "const" }

type TermStore struct {
	tab    map[string]*Term
	all    []*Term
	vars   map[string]*Term
	ufs    map[string]string // name -> declaration
	ufList []string
}

func NewTermStore() *TermStore {
	return &TermStore{tab: map[string]*Term{}, vars: map[string]*Term{}, ufs: map[string]string{}}
}

func (ts *TermStore) mk(op string, s Sort, cval uint64, name string, p1, p2 int, args ...*Term) *Term {
	var sb strings.Builder
	sb.WriteString(op)
	sb.WriteByte('|')
	sb.WriteString(strconv.Itoa(int(s.Kind)))
	sb.WriteByte(':')
	sb.WriteString(strconv.Itoa(s.Width))
	sb.WriteByte('|')
	sb.WriteString(strconv.FormatUint(cval, 16))
	sb.WriteByte('|')
	sb.WriteString(name)
	sb.WriteByte('|')
	sb.WriteString(strconv.Itoa(p1))
	sb.WriteByte(',')
	sb.WriteString(strconv.Itoa(p2))
	for _, a := range args {
		sb.WriteByte(',')
		sb.WriteString(strconv.Itoa(a.id))
	}
	k := sb.String()
	if t, ok := ts.tab[k]; ok {
		return t
	}
	t := &Term{id: len(ts.all), op: op, sort: s, args: args, cval: cval, name: name, p1: p1, p2: p2}
	ts.all = append(ts.all, t)
	ts.tab[k] = t
	return t
}

func mask(w int) uint64 {
	if w >= 64 {
		return ^uint64(0)
	}
	return (uint64(1) << uint(w)) - 1
}

func sext(v uint64, w int) int64 {
	if w >= 64 {
		return int64(v)
	}
	sh := uint(64 - w)
	return int64(v<<sh) >> sh
}

func (ts *TermStore) BV(v uint64, w int) *Term {
	return ts.mk("const", bvSort(w), v&mask(w), "", 0, 0)
}

func (ts *TermStore) Bool(b bool) *Term {
	if b {
		return ts.mk("const", sortBool, 1, "", 0, 0)
	}
	return ts.mk("const", sortBool, 0, "", 0, 0)
}

func (ts *TermStore) FP(f float64) *Term {
	return ts.mk("const", sortFP, math.Float64bits(f), "", 0, 0)
}

func (ts *TermStore) Var(name string, s Sort) *Term {
	t := ts.mk("var", s, 0, name, 0, 0)
	ts.vars[name] = t
	return t
}

func (t *Term) boolConst() (bool, bool) {
	if t.op == "const" && t.sort.Kind == SBool {
		return t.cval == 1, true
	}
	return false, false
}

func (ts *TermStore) Not(a *Term) *Term {
	if b, ok := a.boolConst(); ok {
		return ts.Bool(!b)
	}
	if a.op == "not" {
		return a.args[0]
	}
	return ts.mk("not", sortBool, 0, "", 0, 0, a)
}

func (ts *TermStore) And(a, b *Term) *Term {
	if v, ok := a.boolConst(); ok {
		if v {
			return b
		}
		return a
	}
	if v, ok := b.boolConst(); ok {
		if v {
			return a
		}
		return b
	}
	if a == b {
		return a
	}
	return ts.mk("and", sortBool, 0, "", 0, 0, a, b)
}

func (ts *TermStore) Or(a, b *Term) *Term {
	if v, ok := a.boolConst(); ok {
		if v {
			return a
		}
		return b
	}
	if v, ok := b.boolConst(); ok {
		if v {
			return b
		}
		return a
	}
	if a == b {
		return a
	}
	return ts.mk("or", sortBool, 0, "", 0, 0, a, b)
}

func (ts *TermStore) Ite(c, a, b *Term) *Term {
	if v, ok := c.boolConst(); ok {
		if v {
			return a
		}
		return b
	}
	if a == b {
		return a
	}
	if a.sort.Kind == SBool {
		// ite on bools: (c∧a)∨(¬c∧b)
		if av, ok := a.boolConst(); ok {
			if av {
				return ts.Or(c, b)
			}
			return ts.And(ts.Not(c), b)
		}
		if bv, ok := b.boolConst(); ok {
			if bv {
				return ts.Or(ts.Not(c), a)
			}
			return ts.And(c, a)
		}
	}
	return ts.mk("ite", a.sort, 0, "", 0, 0, c, a, b)
}

func (ts *TermStore) Eq(a, b *Term) *Term {
	if a == b {
		return ts.Bool(true)
	}
	if a.IsConst() && b.IsConst() {
		if a.sort.Kind == SFP64 {
			return ts.Bool(math.Float64frombits(a.cval) == math.Float64frombits(b.cval))
		}
		return ts.Bool(a.cval == b.cval)
	}
	if a.sort.Kind == SBool {
		if v, ok := a.boolConst(); ok {
			if v {
				return b
			}
			return ts.Not(b)
		}
		if v, ok := b.boolConst(); ok {
			if v {
				return a
			}
			return ts.Not(a)
		}
	}
	if a.sort.Kind == SFP64 {
		return ts.mk("fp.eq", sortBool, 0, "", 0, 0, a, b)
	}
	if a.id > b.id {
		a, b = b, a
	}
	return ts.mk("=", sortBool, 0, "", 0, 0, a, b)
}

// BVBin builds a bit-vector binary operation with constant folding.
func (ts *TermStore) BVBin(op string, a, b *Term) *Term {
	w := a.sort.Width
	if a.sort != b.sort {
		panic(fmt.Sprintf("BVBin %s: sort mismatch %v %v", op, a.sort, b.sort))
	}
	if a.IsConst() && b.IsConst() {
		x, y := a.cval, b.cval
		var r uint64
		ok := true
		switch op {
		case "bvadd":
			r = x + y
		case "bvsub":
			r = x - y
		case "bvmul":
			r = x * y
		case "bvand":
			r = x & y
		case "bvor":
			r = x | y
		case "bvxor":
			r = x ^ y
		case "bvudiv":
			if y == 0 {
				r = mask(w)
			} else {
				r = x / y
			}
		case "bvurem":
			if y == 0 {
				r = x
			} else {
				r = x % y
			}
		case "bvsdiv":
			sx, sy := sext(x, w), sext(y, w)
			if sy == 0 {
				ok = false
			} else if sy == -1 {
				r = uint64(-sx)
			} else {
				r = uint64(sx / sy)
			}
		case "bvsrem":
			sx, sy := sext(x, w), sext(y, w)
			if sy == 0 {
				ok = false
			} else if sy == -1 {
				r = 0
			} else {
				r = uint64(sx % sy)
			}
		case "bvshl":
			if y >= uint64(w) {
				r = 0
			} else {
				r = x << y
			}
		case "bvlshr":
			if y >= uint64(w) {
				r = 0
			} else {
				r = x >> y
			}
		case "bvashr":
			sx := sext(x, w)
			if y >= uint64(w) {
				if sx < 0 {
					r = mask(w)
				} else {
					r = 0
				}
			} else {
				r = uint64(sx >> y)
			}
		default:
			ok = false
		}
		if ok {
			return ts.BV(r, w)
		}
	}
	// identities
	switch op {
	case "bvadd":
		if a.IsConst() && a.cval == 0 {
			return b
		}
		if b.IsConst() && b.cval == 0 {
			return a
		}
		if a.IsConst() { // canonical: const on the right
			a, b = b, a
		}
		// (x + c1) + c2 = x + (c1 + c2)   (modulo 2^w, always valid)
		if b.IsConst() {
			if x, c1, ok := addConst(a); ok && c1 != 0 {
				return ts.BVBin("bvadd", x, ts.BV(c1+b.cval, w))
			}
		}
	case "bvsub":
		if b.IsConst() && b.cval == 0 {
			return a
		}
		if a == b {
			return ts.BV(0, w)
		}
		// offsets from a common base cancel (modulo 2^w, always valid):
		// (x + c1) - (x + c2) = c1 - c2 ; (x + c1) - c2 = x + (c1 - c2)
		{
			xa, ca, _ := addConst(a)
			xb, cb, _ := addConst(b)
			if xa == xb && !b.IsConst() {
				return ts.BV(ca-cb, w)
			}
			if b.IsConst() && ca != 0 {
				return ts.BVBin("bvadd", xa, ts.BV(ca-b.cval, w))
			}
		}
	case "bvmul":
		if a.IsConst() && a.cval == 1 {
			return b
		}
		if b.IsConst() && b.cval == 1 {
			return a
		}
		if (a.IsConst() && a.cval == 0) || (b.IsConst() && b.cval == 0) {
			return ts.BV(0, w)
		}
	case "bvand":
		if a == b {
			return a
		}
		if (a.IsConst() && a.cval == 0) || (b.IsConst() && b.cval == 0) {
			return ts.BV(0, w)
		}
		if a.IsConst() && a.cval == mask(w) {
			return b
		}
		if b.IsConst() && b.cval == mask(w) {
			return a
		}
	case "bvor":
		if a == b {
			return a
		}
		if a.IsConst() && a.cval == 0 {
			return b
		}
		if b.IsConst() && b.cval == 0 {
			return a
		}
	case "bvshl", "bvlshr", "bvashr":
		if b.IsConst() && b.cval == 0 {
			return a
		}
	}
	return ts.mk(op, a.sort, 0, "", 0, 0, a, b)
}

// addConst splits x + c (canonical form: constant on the right) into (x, c);
// any other term t is (t, 0).
func addConst(t *Term) (*Term, uint64, bool) {
	if t.op == "bvadd" && len(t.args) == 2 && t.args[1].IsConst() {
		return t.args[0], t.args[1].cval, true
	}
	return t, 0, true
}

// BVCmp builds a bit-vector comparison (bvult, bvule, bvslt, bvsle ...).
func (ts *TermStore) BVCmp(op string, a, b *Term) *Term {
	w := a.sort.Width
	if a.sort != b.sort {
		panic(fmt.Sprintf("BVCmp %s: sort mismatch %v %v", op, a.sort, b.sort))
	}
	if a.IsConst() && b.IsConst() {
		x, y := a.cval, b.cval
		sx, sy := sext(x, w), sext(y, w)
		switch op {
		case "bvult":
			return ts.Bool(x < y)
		case "bvule":
			return ts.Bool(x <= y)
		case "bvugt":
			return ts.Bool(x > y)
		case "bvuge":
			return ts.Bool(x >= y)
		case "bvslt":
			return ts.Bool(sx < sy)
		case "bvsle":
			return ts.Bool(sx <= sy)
		case "bvsgt":
			return ts.Bool(sx > sy)
		case "bvsge":
			return ts.Bool(sx >= sy)
		}
	}
	if a == b {
		switch op {
		case "bvult", "bvugt", "bvslt", "bvsgt":
			return ts.Bool(false)
		default:
			return ts.Bool(true)
		}
	}
	// normalise > and >= to < and <=
	switch op {
	case "bvugt":
		return ts.mk("bvult", sortBool, 0, "", 0, 0, b, a)
	case "bvuge":
		return ts.mk("bvule", sortBool, 0, "", 0, 0, b, a)
	case "bvsgt":
		return ts.mk("bvslt", sortBool, 0, "", 0, 0, b, a)
	case "bvsge":
		return ts.mk("bvsle", sortBool, 0, "", 0, 0, b, a)
	}
	return ts.mk(op, sortBool, 0, "", 0, 0, a, b)
}

func (ts *TermStore) BVNeg(a *Term) *Term {
	if a.IsConst() {
		return ts.BV(-a.cval, a.sort.Width)
	}
	return ts.mk("bvneg", a.sort, 0, "", 0, 0, a)
}

func (ts *TermStore) BVNot(a *Term) *Term {
	if a.IsConst() {
		return ts.BV(^a.cval, a.sort.Width)
	}
	return ts.mk("bvnot", a.sort, 0, "", 0, 0, a)
}

// Resize converts a BV term of width a.sort.Width to width w, sign- or
// zero-extending according to signed.
func (ts *TermStore) Resize(a *Term, w int, signed bool) *Term {
	aw := a.sort.Width
	if aw == w {
		return a
	}
	if a.IsConst() {
		if w < aw {
			return ts.BV(a.cval, w)
		}
		if signed {
			return ts.BV(uint64(sext(a.cval, aw)), w)
		}
		return ts.BV(a.cval, w)
	}
	if w < aw {
		return ts.mk("extract", bvSort(w), 0, "", w-1, 0, a)
	}
	if signed {
		return ts.mk("sign_extend", bvSort(w), 0, "", w-aw, 0, a)
	}
	return ts.mk("zero_extend", bvSort(w), 0, "", w-aw, 0, a)
}

// floating point
func (ts *TermStore) FPBin(op string, a, b *Term) *Term {
	if a.IsConst() && b.IsConst() {
		x, y := math.Float64frombits(a.cval), math.Float64frombits(b.cval)
		switch op {
		case "fp.add":
			return ts.FP(x + y)
		case "fp.sub":
			return ts.FP(x - y)
		case "fp.mul":
			return ts.FP(x * y)
		case "fp.div":
			return ts.FP(x / y)
		case "fp.min":
			return ts.FP(math.Min(x, y))
		case "fp.max":
			return ts.FP(math.Max(x, y))
		}
	}
	if (op == "fp.min" || op == "fp.max") && a.op == "to_fp_s" && b.op == "to_fp_s" && a.args[0].sort == b.args[0].sort {
		// int -> float64 (RNE) is monotone, so min/max commute with it exactly
		x, y := a.args[0], b.args[0]
		lt := ts.BVCmp("bvslt", x, y)
		if op == "fp.min" {
			return ts.IntToFP(ts.Ite(lt, x, y), true)
		}
		return ts.IntToFP(ts.Ite(lt, y, x), true)
	}
	return ts.mk(op, sortFP, 0, "", 0, 0, a, b)
}

func (ts *TermStore) FPCmp(op string, a, b *Term) *Term {
	if a.IsConst() && b.IsConst() {
		x, y := math.Float64frombits(a.cval), math.Float64frombits(b.cval)
		switch op {
		case "fp.lt":
			return ts.Bool(x < y)
		case "fp.leq":
			return ts.Bool(x <= y)
		case "fp.gt":
			return ts.Bool(x > y)
		case "fp.geq":
			return ts.Bool(x >= y)
		}
	}
	return ts.mk(op, sortBool, 0, "", 0, 0, a, b)
}

func (ts *TermStore) FPNeg(a *Term) *Term {
	if a.IsConst() {
		return ts.FP(-math.Float64frombits(a.cval))
	}
	return ts.mk("fp.neg", sortFP, 0, "", 0, 0, a)
}

// IntToFP converts a BV (signed or unsigned) to float64 (RNE).
func (ts *TermStore) IntToFP(a *Term, signed bool) *Term {
	if a.IsConst() {
		if signed {
			return ts.FP(float64(sext(a.cval, a.sort.Width)))
		}
		return ts.FP(float64(a.cval))
	}
	if signed {
		return ts.mk("to_fp_s", sortFP, 0, "", 0, 0, a)
	}
	return ts.mk("to_fp_u", sortFP, 0, "", 0, 0, a)
}

// FPToInt converts float64 to a BV of width w (RTZ).
func (ts *TermStore) FPToInt(a *Term, w int, signed bool) *Term {
	if a.IsConst() {
		f := math.Float64frombits(a.cval)
		if signed {
			return ts.BV(uint64(int64(f)), w)
		}
		return ts.BV(uint64(f), w)
	}
	if signed {
		return ts.mk("fp.to_sbv", bvSort(w), 0, "", w, 0, a)
	}
	return ts.mk("fp.to_ubv", bvSort(w), 0, "", w, 0, a)
}

// UF applies an uninterpreted function (declared on first use).
func (ts *TermStore) UF(name string, res Sort, args ...*Term) *Term {
	if _, ok := ts.ufs[name]; !ok {
		var ss []string
		for _, a := range args {
			ss = append(ss, a.sort.String())
		}
		ts.ufs[name] = fmt.Sprintf("(declare-fun %s (%s) %s)", name, strings.Join(ss, " "), res)
		ts.ufList = append(ts.ufList, name)
	}
	return ts.mk("uf", res, 0, name, 0, 0, args...)
}

// ---------------------------------------------------------------------------
// printing

func bvLit(v uint64, w int) string {
	if w%4 == 0 {
		return fmt.Sprintf("#x%0*x", w/4, v&mask(w))
	}
	return fmt.Sprintf("#b%0*b", w, v&mask(w))
}

func (t *Term) ref() string {
	switch t.op {
	case "const":
		switch t.sort.Kind {
		case SBool:
			if t.cval == 1 {
				return "true"
			}
			return "false"
		case SBV:
			return bvLit(t.cval, t.sort.Width)
		case SFP64:
			b := t.cval
			return fmt.Sprintf("(fp #b%b #b%011b #b%052b)", b>>63, (b>>52)&0x7ff, b&((1<<52)-1))
		}
	case "var":
		return t.name
	}
	return "t!" + strconv.Itoa(t.id)
}

func (t *Term) body() string {
	var as []string
	for _, a := range t.args {
		as = append(as, a.ref())
	}
	j := strings.Join(as, " ")
	switch t.op {
	case "extract":
		return fmt.Sprintf("((_ extract %d %d) %s)", t.p1, t.p2, j)
	case "sign_extend", "zero_extend":
		return fmt.Sprintf("((_ %s %d) %s)", t.op, t.p1, j)
	case "to_fp_s":
		return fmt.Sprintf("((_ to_fp 11 53) RNE %s)", j)
	case "to_fp_u":
		return fmt.Sprintf("((_ to_fp_unsigned 11 53) RNE %s)", j)
	case "fp.to_sbv", "fp.to_ubv":
		return fmt.Sprintf("((_ %s %d) RTZ %s)", t.op, t.p1, j)
	case "fp.add", "fp.sub", "fp.mul", "fp.div":
		return fmt.Sprintf("(%s RNE %s)", t.op, j)
	case "uf":
		if len(as) == 0 {
			return t.name
		}
		return fmt.Sprintf("(%s %s)", t.name, j)
	}
	return fmt.Sprintf("(%s %s)", t.op, j)
}

// Deps returns the compound sub-terms of t in dependency order (children
// first), skipping those for which seen[id] is set; it marks them seen.
func (t *Term) deps(seen map[int]bool, out *[]*Term, vars *[]*Term) {
	if t.op == "const" {
		return
	}
	if seen[t.id] {
		return
	}
	seen[t.id] = true
	if t.op == "var" {
		*vars = append(*vars, t)
		return
	}
	for _, a := range t.args {
		a.deps(seen, out, vars)
	}
	*out = append(*out, t)
}

// Pretty prints a term as a tree (for evidence samples / debugging).
func (t *Term) Pretty(depth int) string {
	if t.op == "const" || t.op == "var" {
		return t.ref()
	}
	if depth <= 0 {
		return "…"
	}
	var as []string
	for _, a := range t.args {
		as = append(as, a.Pretty(depth-1))
	}
	op := t.op
	if op == "uf" {
		op = t.name
	}
	return "(" + op + " " + strings.Join(as, " ") + ")"
}

// Vars returns the names of the variables t depends on, sorted.
func (t *Term) Vars() []string {
	seen := map[int]bool{}
	var out, vars []*Term
	t.deps(seen, &out, &vars)
	var ns []string
	for _, v := range vars {
		ns = append(ns, v.name)
	}
	sort.Strings(ns)
	return ns
}

var _ = bits.Len
