package interp

// json.Decoder over an arbitrary io.Reader (a pipe, a limited reader, a
// harness stream): the document written by the JSON model travels through
// byte slices as ONE element; Decode calls the reader's real Read method
// until that element arrives (or the reader reports an error / EOF).

import (
	"go/types"
)

// callMethod calls method name of the dynamic value x with args.
func (i *interpreter) callMethod(x iface, name string, args ...value) (value, bool) {
	ms := i.prog.MethodSets.MethodSet(x.t)
	for k := 0; k < ms.Len(); k++ {
		sel := ms.At(k)
		if sel.Obj().Name() != name {
			continue
		}
		f := i.prog.MethodValue(sel)
		if f == nil {
			return nil, false
		}
		return call(i, i.curFrame, 0, f, append([]value{x.v}, args...)), true
	}
	return nil, false
}

func (i *interpreter) jsonDecodeFromReader(d *jsonDecoder, target value) value {
	r, ok := d.r.(iface)
	if !ok || r.t == nil {
		panic(engineError{"json.Decoder over a nil reader"})
	}
	if d.done {
		return i.ioEOF()
	}
	for rounds := 0; rounds < 64; rounds++ {
		buf := make([]value, 8)
		for k := range buf {
			buf[k] = uint8(0)
		}
		res, ok := i.callMethod(r, "Read", buf)
		if !ok {
			panic(engineError{"json.Decoder: the reader has no Read method"})
		}
		tup := res.(tuple)
		n, okn := tup[0].(int)
		if !okn {
			panic(engineError{"json.Decoder: symbolic read length"})
		}
		for k := 0; k < n; k++ {
			if nat, ok := buf[k].(*native); ok {
				if _, ok := nat.v.(*jsonDoc); ok {
					d.done = true
					return i.jsonUnmarshal([]value{nat}, target)
				}
			}
		}
		if n > 0 {
			return i.newError("invalid character in JSON stream (bytes that were not written by the JSON model)", nil)
		}
		if e, ok := tup[1].(iface); ok && e.t != nil {
			if s, ok := i.callStringMethod(e); ok && s == "EOF" {
				return i.newError("unexpected end of JSON input", nil)
			}
			return e
		}
	}
	panic(engineError{"json.Decoder: reader returned (0, nil) 64 times"})
}

var _ = types.Typ

// genericCopy is io.Copy between two endpoints that are ordinary interpreted
// readers / writers (pipes, limited readers, harness streams): the real Read
// and Write methods are called with a small buffer.
func (i *interpreter) genericCopy(dst, src value) value {
	d, ok1 := dst.(iface)
	s, ok2 := src.(iface)
	if !ok1 || !ok2 || d.t == nil || s.t == nil {
		panic(engineError{"io.Copy with a nil endpoint"})
	}
	total := int64(0)
	for rounds := 0; rounds < 4096; rounds++ {
		buf := make([]value, 16)
		for k := range buf {
			buf[k] = uint8(0)
		}
		res, ok := i.callMethod(s, "Read", buf)
		if !ok {
			panic(engineError{"io.Copy: source without Read"})
		}
		tup := res.(tuple)
		n, okn := tup[0].(int)
		if !okn {
			panic(engineError{"io.Copy: symbolic read length"})
		}
		if n > 0 {
			wres, ok := i.callMethod(d, "Write", buf[:n])
			if !ok {
				panic(engineError{"io.Copy: destination without Write"})
			}
			wt := wres.(tuple)
			nw, okw := wt[0].(int)
			if !okw {
				panic(engineError{"io.Copy: symbolic write length"})
			}
			total += int64(nw)
			if e, ok := wt[1].(iface); ok && e.t != nil {
				return tuple{total, e}
			}
			if nw != n {
				return tuple{total, i.newError("short write", nil)}
			}
		}
		if e, ok := tup[1].(iface); ok && e.t != nil {
			if str, ok := i.callStringMethod(e); ok && str == "EOF" {
				return tuple{total, iface{}}
			}
			return tuple{total, e}
		}
	}
	panic(engineError{"io.Copy: more than 4096 rounds"})
}

// genericReadAll is io.ReadAll over an ordinary interpreted reader.
func (i *interpreter) genericReadAll(r iface) value {
	var out []value
	for rounds := 0; rounds < 4096; rounds++ {
		buf := make([]value, 16)
		for k := range buf {
			buf[k] = uint8(0)
		}
		res, ok := i.callMethod(r, "Read", buf)
		if !ok {
			panic(engineError{"io.ReadAll: reader without Read"})
		}
		tup := res.(tuple)
		n, okn := tup[0].(int)
		if !okn {
			panic(engineError{"io.ReadAll: symbolic read length"})
		}
		out = append(out, buf[:n]...)
		if e, ok := tup[1].(iface); ok && e.t != nil {
			if str, ok := i.callStringMethod(e); ok && str == "EOF" {
				return tuple{out, iface{}}
			}
			return tuple{out, e}
		}
	}
	panic(engineError{"io.ReadAll: more than 4096 rounds"})
}
