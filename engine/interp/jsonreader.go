package interp

// json.Decoder over an arbitrary io.Reader (a pipe, a limited reader, a
// harness stream): the document written by the JSON model travels through
// byte slices as ONE element; Decode calls the reader's real Read method
// until that element arrives (or the reader reports an error / EOF).

import (
	"fmt"
	"go/types"
)

// callMethod calls method name of the dynamic value x with args.
func (i *interpreter) callMethod(x iface, name string, args ...value) (value, bool) {
	ms := i.prog.MethodSets.MethodSet(x.t)
	for k := 0; k < ms.Len(); k++ {
		sel := ms.At(k)
		if sel.Obj().Name() != name {
			continue
		}
		f := i.prog.MethodValue(sel)
		if f == nil {
			return nil, false
		}
		return call(i, i.curFrame, 0, f, append([]value{x.v}, args...)), true
	}
	return nil, false
}

func (i *interpreter) jsonDecodeFromReader(d *jsonDecoder, target value) value {
	r, ok := d.r.(iface)
	if !ok || r.t == nil {
		panic(engineError{"json.Decoder over a nil reader"})
	}
	if d.done {
		return i.ioEOF()
	}
	for rounds := 0; rounds < 64; rounds++ {
		buf := make([]value, 8)
		for k := range buf {
			buf[k] = uint8(0)
		}
		res, ok := i.callMethod(r, "Read", buf)
		if !ok {
			panic(engineError{"json.Decoder: the reader has no Read method"})
		}
		tup := res.(tuple)
		n, okn := tup[0].(int)
		if !okn {
			panic(engineError{"json.Decoder: symbolic read length"})
		}
		for k := 0; k < n; k++ {
			if nat, ok := buf[k].(*native); ok {
				if _, ok := nat.v.(*jsonDoc); ok {
					d.done = true
					return i.jsonUnmarshal([]value{nat}, target)
				}
			}
		}
		if n > 0 {
			return i.newError("invalid character in JSON stream (bytes that were not written by the JSON model)", nil)
		}
		if e, ok := tup[1].(iface); ok && e.t != nil {
			if s, ok := i.callStringMethod(e); ok && s == "EOF" {
				return i.newError("unexpected end of JSON input", nil)
			}
			return e
		}
	}
	panic(engineError{"json.Decoder: reader returned (0, nil) 64 times"})
}

var _ = types.Typ

// genericCopy is io.Copy between two endpoints that are ordinary interpreted
// readers / writers (pipes, limited readers, harness streams): the real Read
// and Write methods are called with a small buffer.
func (i *interpreter) genericCopy(dst, src value) value {
	d, ok1 := dst.(iface)
	s, ok2 := src.(iface)
	if !ok1 || !ok2 || d.t == nil || s.t == nil {
		panic(engineError{"io.Copy with a nil endpoint"})
	}
	total := int64(0)
	for rounds := 0; rounds < 4096; rounds++ {
		buf := make([]value, 16)
		for k := range buf {
			buf[k] = uint8(0)
		}
		res, ok := i.callMethod(s, "Read", buf)
		if !ok {
			panic(engineError{"io.Copy: source without Read"})
		}
		tup := res.(tuple)
		n, okn := tup[0].(int)
		if !okn {
			panic(engineError{"io.Copy: symbolic read length"})
		}
		if n > 0 {
			wres, ok := i.callMethod(d, "Write", buf[:n])
			if !ok {
				panic(engineError{"io.Copy: destination without Write"})
			}
			wt := wres.(tuple)
			nw, okw := wt[0].(int)
			if !okw {
				panic(engineError{"io.Copy: symbolic write length"})
			}
			total += int64(nw)
			if e, ok := wt[1].(iface); ok && e.t != nil {
				return tuple{total, e}
			}
			if nw != n {
				return tuple{total, i.newError("short write", nil)}
			}
		}
		if e, ok := tup[1].(iface); ok && e.t != nil {
			if str, ok := i.callStringMethod(e); ok && str == "EOF" {
				return tuple{total, iface{}}
			}
			return tuple{total, e}
		}
	}
	panic(engineError{"io.Copy: more than 4096 rounds"})
}

// genericReadAll is io.ReadAll over an ordinary interpreted reader.
func (i *interpreter) genericReadAll(r iface) value {
	var out []value
	for rounds := 0; rounds < 4096; rounds++ {
		buf := make([]value, 16)
		for k := range buf {
			buf[k] = uint8(0)
		}
		res, ok := i.callMethod(r, "Read", buf)
		if !ok {
			panic(engineError{"io.ReadAll: reader without Read"})
		}
		tup := res.(tuple)
		n, okn := tup[0].(int)
		if !okn {
			panic(engineError{"io.ReadAll: symbolic read length"})
		}
		out = append(out, buf[:n]...)
		if e, ok := tup[1].(iface); ok && e.t != nil {
			if str, ok := i.callStringMethod(e); ok && str == "EOF" {
				return tuple{out, iface{}}
			}
			return tuple{out, e}
		}
	}
	panic(engineError{"io.ReadAll: more than 4096 rounds"})
}

// copyReaderToFile is io.Copy(file, r) for an ordinary interpreted reader r
// (a part decoder over a pipe): the reader's real Read is called; what arrives
// must be either concrete bytes (a byte blob is written) or content bytes —
// content_<tag>(offset) terms at consecutive concrete offsets, as harness
// source files produce them — which are written as a tagged segment, so that
// the MD5 model still recognises a complete version.
func (i *interpreter) copyReaderToFile(dh *fhandle, dstv value, src iface) value {
	total := int64(0)
	for rounds := 0; rounds < 4096; rounds++ {
		buf := make([]value, 16)
		for k := range buf {
			buf[k] = uint8(0)
		}
		res, ok := i.callMethod(src, "Read", buf)
		if !ok {
			panic(engineError{"io.Copy: source without Read"})
		}
		tup := res.(tuple)
		n, okn := tup[0].(int)
		if !okn {
			panic(engineError{"io.Copy: symbolic read length"})
		}
		if n > 0 {
			chunk := buf[:n]
			tag, off, isContent := contentRun(chunk)
			switch {
			case isContent:
				pos, okp := dh.pos.(int64)
				if !okp {
					panic(engineError{"io.Copy of content bytes at a symbolic file offset"})
				}
				i.fsOp("write", dh.path, true)
				i.writeSeg(dh.node, pos, int64(n), tag, off)
				dh.pos = pos + int64(n)
			case !anySymByte(chunk):
				externals["(*os.File).Write"](i.curFrame, []value{dstv.(iface).v, chunk})
			default:
				panic(engineError{"io.Copy into a file: bytes that are neither concrete nor content of one version"})
			}
			total += int64(n)
		}
		if e, ok := tup[1].(iface); ok && e.t != nil {
			if str, ok := i.callStringMethod(e); ok && str == "EOF" {
				return tuple{total, iface{}}
			}
			return tuple{total, e}
		}
	}
	panic(engineError{"io.Copy: more than 4096 rounds"})
}

// contentRun: are the bytes content_<tag>(o), content_<tag>(o+1), ... ?
func contentRun(b []value) (tag string, off int64, ok bool) {
	for k, x := range b {
		sv, isSym := x.(symv)
		if !isSym || sv.t.op != "uf" || len(sv.t.args) != 1 || !sv.t.args[0].IsConst() || len(sv.t.name) < 9 || sv.t.name[:8] != "content_" {
			return "", 0, false
		}
		t, o := sv.t.name[8:], int64(sv.t.args[0].cval)
		if k == 0 {
			tag, off = t, o
		} else if t != tag || o != off+int64(k) {
			return "", 0, false
		}
	}
	return tag, off, len(b) > 0
}

// copyReaderToMD5 is io.Copy(hash, r) for an ordinary interpreted reader:
// everything is read; content bytes of one version from offset 0 to its
// declared size hash to "md5-<tag>", anything else to a fresh unequal value.
func (i *interpreter) copyReaderToMD5(st *md5state, src iface) value {
	res := i.genericReadAll(src).(tuple)
	all, _ := res[0].([]value)
	fs := i.world.FS()
	tag, off, ok := contentRun(all)
	full, known := fs.versions[tag]
	if ok && known && off == 0 {
		if fz, isC := full.(int64); isC && fz == int64(len(all)) {
			st.hex = "md5-" + tag
			return tuple{int64(len(all)), res[1]}
		}
	}
	if !anySymByte(all) {
		s, _ := symstr{all}.concrete()
		st.hex = "md5s-" + s
		return tuple{int64(len(all)), res[1]}
	}
	fs.badHash++
	st.hex = fmt.Sprintf("md5-other-%d", fs.badHash)
	return tuple{int64(len(all)), res[1]}
}
