package interp

// verifrt environment API (file system, content versions, crash points, lock
// audit) — engine side.

import (
	"go/types"

	"golang.org/x/tools/go/ssa"
	"path/filepath"
	"sort"
	"strings"
)

func (e *Engine) initFakeTypes() {
	e.fakeMethods = map[types.Type]methodSet{}
	mk := func(t *types.Named, names ...string) {
		ms := methodSet{}
		for _, n := range names {
			ms[n] = newMethod(e.reflectPackage, t, n)
		}
		e.fakeMethods[t] = ms
	}
	mk(fileInfoType, "Name", "Size", "Mode", "ModTime", "IsDir", "Sys")
	mk(dirEntryType, "Name", "IsDir", "Type", "Info")
	mk(creaderType, "Read", "Close", "Seek")
}

func init() {
	for k, v := range map[string]externalFn{
		vrt + "TempRoot": func(fr *frame, a []value) value {
			fs := fr.i.world.FS()
			if fs.nodes["/vroot"] == nil {
				fs.nodes["/vroot"] = &fnode{dir: true, size: int64(0), mtime: int64(0)}
			}
			return "/vroot"
		},
		vrt + "Version": func(fr *frame, a []value) value {
			fr.i.world.FS().versions[a[1].(string)] = a[2]
			return "md5-" + a[1].(string)
		},
		vrt + "Reader": func(fr *frame, a []value) value {
			return iface{creaderType, &native{&creader{tag: a[1].(string), src: a[2], n: a[3]}}}
		},
		vrt + "Readable": func(fr *frame, a []value) value {
			return iface{creaderType, &native{&creader{tag: a[1].(string), src: a[2], n: a[3]}}}
		},
		vrt + "FailingReader": func(fr *frame, a []value) value {
			return iface{creaderType, &native{&creader{tag: a[1].(string), src: a[2], n: a[3], fail: true}}}
		},
		"(reflect.creader).Close": func(fr *frame, a []value) value { return iface{} },
		"(reflect.creader).Seek": func(fr *frame, a []value) value {
			cr := a[0].(*native).v.(*creader)
			if asInt64(a[2]) != 0 {
				panic(engineError{"content reader: Seek with whence != 0"})
			}
			// bytes [src,src+n) of the content: seeking to off leaves [off, src+n)
			end := binop(fr.i, tokenADD, nil, cr.src, cr.n)
			cr.src = a[1]
			cr.n = binop(fr.i, tokenSUB, nil, end, a[1])
			return tuple{a[1], iface{}}
		},
		"(reflect.creader).Read": func(fr *frame, a []value) value {
			i := fr.i
			cr := a[0].(*native).v.(*creader)
			p := a[1].([]value)
			n, ok := cr.n.(int64)
			if !ok {
				panic(engineError{"byte-wise Read from a content reader of symbolic length"})
			}
			if n == 0 || cr.done {
				if cr.fail {
					return tuple{0, i.newError("unexpected EOF (reader failed)", nil)}
				}
				return tuple{0, i.ioEOF()}
			}
			k := int64(len(p))
			if k > n {
				k = n
			}
			ts := i.ts()
			for j := int64(0); j < k; j++ {
				off := binop(i, tokenADD, nil, cr.src, j)
				p[j] = mkval(ts.UF("content_"+sanitize(cr.tag), bvSort(8), i.term(off)), types.Uint8)
			}
			cr.src = binop(i, tokenADD, nil, cr.src, k)
			cr.n = n - k
			return tuple{int(k), iface{}}
		},
		vrt + "FileIs": func(fr *frame, a []value) value {
			i := fr.i
			n := i.world.FS().nodes[i.fsPath(a[1])]
			if n == nil || n.dir {
				return false
			}
			return i.isExactly(n, a[2].(string))
		},
		vrt + "Exists": func(fr *frame, a []value) value {
			return fr.i.world.FS().nodes[fr.i.fsPath(a[1])] != nil
		},
		vrt + "Files": func(fr *frame, a []value) value {
			i := fr.i
			root := i.fsPath(a[1])
			var out []string
			for p, n := range i.world.FS().nodes {
				if !n.dir && strings.HasPrefix(p, root+"/") {
					out = append(out, p[len(root)+1:])
				}
			}
			sort.Strings(out)
			res := make([]value, len(out))
			for k, s := range out {
				res[k] = s
			}
			return res
		},
		vrt + "SetAge": func(fr *frame, a []value) value {
			i := fr.i
			n := i.world.FS().nodes[i.fsPath(a[1])]
			if n == nil {
				panic(engineError{"SetAge: no such file " + i.fsPath(a[1])})
			}
			n.mtime = binop(i, tokenSUB, nil, i.now(), a[2])
			return nil
		},
		vrt + "PutVersionFile": func(fr *frame, a []value) value {
			// creates path with exactly the content of version tag (set-up of pre-states)
			i := fr.i
			p := i.fsPath(a[1])
			fs := i.world.FS()
			tag := a[2].(string)
			size, ok := fs.versions[tag]
			if !ok {
				panic(engineError{"PutVersionFile: undeclared version " + tag})
			}
			nd := &fnode{size: size, mtime: i.now()}
			nd.segs = []fseg{{int64(0), size, tag, int64(0)}}
			for q := filepath.Dir(p); q != "/" && fs.nodes[q] == nil; q = filepath.Dir(q) {
				fs.nodes[q] = &fnode{dir: true, size: int64(0), mtime: i.now()}
			}
			fs.nodes[p] = nd
			return nil
		},
		vrt + "OnFS": func(fr *frame, a []value) value {
			fr.i.world.FS().monitor = a[1]
			if f, ok := a[1].(*ssa.Function); ok && f == nil {
				fr.i.world.FS().monitor = nil
			}
			return nil
		},
		vrt + "FSMutations": func(fr *frame, a []value) value { return fr.i.world.FS().mutations },
		vrt + "RunUntilCrash": func(fr *frame, a []value) value {
			i := fr.i
			fs := i.world.FS()
			k := int(asInt64(a[1]))
			fs.crashAt = fs.mutations + k
			if k <= 0 {
				fs.crashAt = 0
			}
			crashed := false
			func() {
				defer func() {
					if r := recover(); r != nil {
						if _, ok := r.(crashPanic); ok {
							crashed = true
							return
						}
						panic(r)
					}
				}()
				call(i, fr, 0, a[2], nil)
				i.quiesceAll()
			}()
			fs.crashAt = 0
			call := i.path.crashCalls
			i.path.crashCalls++
			if crashed {
				i.processDied()
				i.captureImage(call)
			}
			return crashed
		},
		vrt + "KillProcess": func(fr *frame, a []value) value { fr.i.processDied(); return nil },
		vrt + "Held": func(fr *frame, a []value) value {
			e := a[1].(iface)
			p, ok := e.v.(*value)
			if !ok || p == nil {
				return false
			}
			m := fr.i.world.mutexes[p]
			return m != nil && (m.owner != nil || m.readers > 0)
		},
		vrt + "FireTimers": func(fr *frame, a []value) value {
			// fires every pending timer once (in creation order), then quiesces
			i := fr.i
			n := 0
			for _, t := range i.world.pendingTimers() {
				i.world.fire(t)
				n++
			}
			i.quiesceAll()
			return n
		},
	} {
		externals[k] = v
	}
}

// processDied models the death of the process: every goroutine other than the
// harness is gone, timers and lock state vanish; the file system stays.
func (i *interpreter) processDied() {
	s := i.sched
	for _, g := range s.all {
		if g != s.main && !g.done {
			g.wake <- 0
		}
	}
	s.wg.Wait()
	s.all = []*goroutine{s.main}
	s.cur = s.main
	s.fatal = nil
	w := i.world
	w.timers = nil
	w.mutexes = map[*value]*mutexState{}
	w.wgs = map[*value]int{}
	w.onces = map[*value]bool{}
}
