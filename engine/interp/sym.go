package interp

// Symbolic scalar values and the symbolic cases of binop/unop/conv.

import (
	"fmt"
	"go/token"
	"go/types"
	"math"
)

// symv is a symbolic scalar: a term plus the Go basic kind it stands for
// (which fixes width and signedness exactly as in Go).
type symv struct {
	t *Term
	k types.BasicKind
}

func isSym(v value) bool {
	_, ok := v.(symv)
	return ok
}

func kindWidth(k types.BasicKind) (w int, signed bool) {
	switch k {
	case types.Int, types.Int64:
		return 64, true
	case types.Int8:
		return 8, true
	case types.Int16:
		return 16, true
	case types.Int32:
		return 32, true
	case types.Uint, types.Uint64, types.Uintptr:
		return 64, false
	case types.Uint8:
		return 8, false
	case types.Uint16:
		return 16, false
	case types.Uint32:
		return 32, false
	}
	panic(engineError{fmt.Sprintf("kindWidth: not an integer kind %v", k)})
}

func isIntKind(k types.BasicKind) bool {
	switch k {
	case types.Int, types.Int8, types.Int16, types.Int32, types.Int64,
		types.Uint, types.Uint8, types.Uint16, types.Uint32, types.Uint64, types.Uintptr:
		return true
	}
	return false
}

// concreteKind returns the basic kind of a concrete scalar value.
func concreteKind(v value) (types.BasicKind, bool) {
	switch v.(type) {
	case bool:
		return types.Bool, true
	case int:
		return types.Int, true
	case int8:
		return types.Int8, true
	case int16:
		return types.Int16, true
	case int32:
		return types.Int32, true
	case int64:
		return types.Int64, true
	case uint:
		return types.Uint, true
	case uint8:
		return types.Uint8, true
	case uint16:
		return types.Uint16, true
	case uint32:
		return types.Uint32, true
	case uint64:
		return types.Uint64, true
	case uintptr:
		return types.Uintptr, true
	case float64:
		return types.Float64, true
	}
	return 0, false
}

func valueKind(v value) types.BasicKind {
	if s, ok := v.(symv); ok {
		return s.k
	}
	k, ok := concreteKind(v)
	if !ok {
		panic(engineError{fmt.Sprintf("valueKind: unsupported %T", v)})
	}
	return k
}

// concreteOfKind builds the concrete Go value of kind k from raw bits.
func concreteOfKind(k types.BasicKind, bits uint64) value {
	switch k {
	case types.Bool:
		return bits != 0
	case types.Int:
		return int(int64(bits))
	case types.Int8:
		return int8(bits)
	case types.Int16:
		return int16(bits)
	case types.Int32:
		return int32(bits)
	case types.Int64:
		return int64(bits)
	case types.Uint:
		return uint(bits)
	case types.Uint8:
		return uint8(bits)
	case types.Uint16:
		return uint16(bits)
	case types.Uint32:
		return uint32(bits)
	case types.Uint64:
		return bits
	case types.Uintptr:
		return uintptr(bits)
	case types.Float64:
		return math.Float64frombits(bits)
	}
	panic(engineError{fmt.Sprintf("concreteOfKind: %v", k)})
}

// term lifts a scalar value to a term.
func (i *interpreter) term(v value) *Term {
	ts := i.ts()
	switch v := v.(type) {
	case symv:
		return v.t
	case bool:
		return ts.Bool(v)
	case float64:
		return ts.FP(v)
	}
	k, ok := concreteKind(v)
	if !ok {
		panic(engineError{fmt.Sprintf("term: cannot lift %T", v)})
	}
	w, _ := kindWidth(k)
	switch x := v.(type) {
	case int, int8, int16, int32, int64:
		return ts.BV(uint64(asInt64(x)), w)
	default:
		return ts.BV(uint64(asInt64(x)), w)
	}
}

// mkval wraps a term as a value, collapsing constants to concrete values.
func mkval(t *Term, k types.BasicKind) value {
	if t.IsConst() {
		return concreteOfKind(k, constBits(t, k))
	}
	return symv{t, k}
}

func constBits(t *Term, k types.BasicKind) uint64 {
	if t.sort.Kind == SBV {
		_, signed := kindWidth(k)
		if signed {
			return uint64(sext(t.cval, t.sort.Width))
		}
	}
	return t.cval
}

func (i *interpreter) symBinop(op token.Token, x, y value) value {
	ts := i.ts()
	k := valueKind(x)
	if op == token.SHL || op == token.SHR {
		return i.symShift(op, x, y)
	}
	if valueKind(y) != k {
		panic(engineError{fmt.Sprintf("symBinop %s: kind mismatch %v %v", op, k, valueKind(y))})
	}
	a, b := i.term(x), i.term(y)
	switch k {
	case types.Bool:
		switch op {
		case token.EQL:
			return mkval(ts.Eq(a, b), types.Bool)
		case token.NEQ:
			return mkval(ts.Not(ts.Eq(a, b)), types.Bool)
		case token.AND, token.LAND:
			return mkval(ts.And(a, b), types.Bool)
		case token.OR, token.LOR:
			return mkval(ts.Or(a, b), types.Bool)
		}
	case types.Float64:
		switch op {
		case token.ADD:
			return mkval(ts.FPBin("fp.add", a, b), k)
		case token.SUB:
			return mkval(ts.FPBin("fp.sub", a, b), k)
		case token.MUL:
			return mkval(ts.FPBin("fp.mul", a, b), k)
		case token.QUO:
			return mkval(ts.FPBin("fp.div", a, b), k)
		case token.LSS:
			return mkval(ts.FPCmp("fp.lt", a, b), types.Bool)
		case token.LEQ:
			return mkval(ts.FPCmp("fp.leq", a, b), types.Bool)
		case token.GTR:
			return mkval(ts.FPCmp("fp.gt", a, b), types.Bool)
		case token.GEQ:
			return mkval(ts.FPCmp("fp.geq", a, b), types.Bool)
		case token.EQL:
			return mkval(ts.Eq(a, b), types.Bool)
		case token.NEQ:
			return mkval(ts.Not(ts.Eq(a, b)), types.Bool)
		}
	default:
		_, signed := kindWidth(k)
		switch op {
		case token.ADD:
			return mkval(ts.BVBin("bvadd", a, b), k)
		case token.SUB:
			return mkval(ts.BVBin("bvsub", a, b), k)
		case token.MUL:
			return mkval(ts.BVBin("bvmul", a, b), k)
		case token.QUO, token.REM:
			// division by zero panics in Go: decide it first
			w, _ := kindWidth(k)
			if i.decideBool("divzero", ts.Eq(b, ts.BV(0, w))) {
				panic(targetPanic{iface{i.eng.runtimeErrorString, "integer divide by zero"}})
			}
			if op == token.QUO {
				if signed {
					return mkval(ts.BVBin("bvsdiv", a, b), k)
				}
				return mkval(ts.BVBin("bvudiv", a, b), k)
			}
			if signed {
				return mkval(ts.BVBin("bvsrem", a, b), k)
			}
			return mkval(ts.BVBin("bvurem", a, b), k)
		case token.AND:
			return mkval(ts.BVBin("bvand", a, b), k)
		case token.OR:
			return mkval(ts.BVBin("bvor", a, b), k)
		case token.XOR:
			return mkval(ts.BVBin("bvxor", a, b), k)
		case token.AND_NOT:
			return mkval(ts.BVBin("bvand", a, ts.BVNot(b)), k)
		case token.EQL:
			return mkval(ts.Eq(a, b), types.Bool)
		case token.NEQ:
			return mkval(ts.Not(ts.Eq(a, b)), types.Bool)
		case token.LSS:
			return mkval(ts.BVCmp(pick(signed, "bvslt", "bvult"), a, b), types.Bool)
		case token.LEQ:
			return mkval(ts.BVCmp(pick(signed, "bvsle", "bvule"), a, b), types.Bool)
		case token.GTR:
			return mkval(ts.BVCmp(pick(signed, "bvsgt", "bvugt"), a, b), types.Bool)
		case token.GEQ:
			return mkval(ts.BVCmp(pick(signed, "bvsge", "bvuge"), a, b), types.Bool)
		}
	}
	panic(engineError{fmt.Sprintf("symBinop: unsupported %v %s", k, op)})
}

func pick(c bool, a, b string) string {
	if c {
		return a
	}
	return b
}

func (i *interpreter) symShift(op token.Token, x, y value) value {
	ts := i.ts()
	k := valueKind(x)
	w, signed := kindWidth(k)
	a := i.term(x)
	yk := valueKind(y)
	yw, ysigned := kindWidth(yk)
	b := i.term(y)
	if ysigned {
		if i.decideBool("negshift", ts.BVCmp("bvslt", b, ts.BV(0, yw))) {
			panic(targetPanic{iface{i.eng.runtimeErrorString, "negative shift amount"}})
		}
	}
	// saturate the count when it is wider than the operand
	var big *Term
	if yw > w {
		big = ts.BVCmp("bvuge", b, ts.BV(uint64(w), yw))
	}
	b = ts.Resize(b, w, false)
	var r *Term
	switch {
	case op == token.SHL:
		r = ts.BVBin("bvshl", a, b)
	case signed:
		r = ts.BVBin("bvashr", a, b)
	default:
		r = ts.BVBin("bvlshr", a, b)
	}
	if big != nil {
		var sat *Term
		if op == token.SHR && signed {
			sat = ts.BVBin("bvashr", a, ts.BV(uint64(w-1), w))
		} else {
			sat = ts.BV(0, w)
		}
		r = ts.Ite(big, sat, r)
	}
	return mkval(r, k)
}

func (i *interpreter) symUnop(op token.Token, x symv) value {
	ts := i.ts()
	switch op {
	case token.NOT:
		return mkval(ts.Not(x.t), types.Bool)
	case token.SUB:
		if x.k == types.Float64 {
			return mkval(ts.FPNeg(x.t), x.k)
		}
		return mkval(ts.BVNeg(x.t), x.k)
	case token.XOR:
		return mkval(ts.BVNot(x.t), x.k)
	}
	panic(engineError{fmt.Sprintf("symUnop: unsupported %s", op)})
}

// symConv converts symbolic scalar x to the basic type dst.
func (i *interpreter) symConv(dst *types.Basic, x symv) value {
	ts := i.ts()
	dk := dst.Kind()
	switch {
	case x.k == types.Bool && dk == types.Bool:
		return x
	case isIntKind(x.k) && isIntKind(dk):
		_, ssigned := kindWidth(x.k)
		dw, _ := kindWidth(dk)
		return mkval(ts.Resize(x.t, dw, ssigned), dk)
	case isIntKind(x.k) && dk == types.Float64:
		_, ssigned := kindWidth(x.k)
		return mkval(ts.IntToFP(x.t, ssigned), dk)
	case x.k == types.Float64 && isIntKind(dk):
		dw, dsigned := kindWidth(dk)
		if r, ok := i.abstractScaledInt(x.t, dw, dsigned); ok {
			return mkval(r, dk)
		}
		if x.t.op == "to_fp_s" && dsigned && x.t.args[0].sort.Width == dw && dw == 64 {
			// int64(float64(a)) == a whenever |a| ≤ 2^53 (float64 is exact
			// there): rewrite if the path condition implies the range (one
			// bit-vector query), which removes floating point from the rest
			// of the path
			a := x.t.args[0]
			out := ts.Or(ts.BVCmp("bvslt", a, ts.BV(^uint64(1<<53)+1, 64)), ts.BVCmp("bvsgt", a, ts.BV(1<<53, 64)))
			if res, _ := i.path.w.solver.Check(i.path.pc, []*Term{out}, nil); res == Unsat {
				return mkval(a, dk)
			}
		}
		return mkval(ts.FPToInt(x.t, dw, dsigned), dk)
	case x.k == types.Float64 && dk == types.Float64:
		return x
	}
	panic(engineError{fmt.Sprintf("symConv: unsupported %v -> %v", x.k, dk)})
}

// boolTerm returns the term of a (possibly symbolic) bool value.
func (i *interpreter) boolTerm(v value) *Term {
	switch v := v.(type) {
	case bool:
		return i.ts().Bool(v)
	case symv:
		if v.k != types.Bool {
			panic(engineError{"boolTerm: not a bool"})
		}
		return v.t
	}
	panic(engineError{fmt.Sprintf("boolTerm: %T", v)})
}

// truth forces a bool value to a concrete Go bool, forking if symbolic.
func (i *interpreter) truth(site string, v value) bool {
	switch v := v.(type) {
	case bool:
		return v
	case symv:
		return i.decideBool(site, v.t)
	}
	panic(engineError{fmt.Sprintf("truth: %T", v)})
}

// andValues returns the conjunction of two bool values without forking.
func (i *interpreter) andValues(a, b value) value {
	if ab, ok := a.(bool); ok {
		if !ab {
			return false
		}
		return b
	}
	if bb, ok := b.(bool); ok {
		if !bb {
			return false
		}
		return a
	}
	return mkval(i.ts().And(i.boolTerm(a), i.boolTerm(b)), types.Bool)
}

func (i *interpreter) notValue(a value) value {
	if ab, ok := a.(bool); ok {
		return !ab
	}
	return mkval(i.ts().Not(i.boolTerm(a)), types.Bool)
}

// concretizeInt forces an integer value to a concrete int64 in [lo,hi]; values
// outside the range select the alternative "out of range" (returned ok=false).
func (i *interpreter) concretizeInt(site string, v value, lo, hi int64) (int64, bool) {
	s, ok := v.(symv)
	if !ok {
		x := asInt64(v)
		return x, x >= lo && x <= hi
	}
	ts := i.ts()
	w, signed := kindWidth(s.k)
	n := int(hi-lo+1) + 1
	if hi < lo {
		n = 1
	}
	if n > 4096 {
		panic(engineError{fmt.Sprintf("concretizeInt(%s): range too large [%d,%d]", site, lo, hi)})
	}
	c := i.decide(site, n, func(j int) *Term {
		if j == n-1 { // out of range
			if hi < lo {
				return ts.Bool(true)
			}
			if signed {
				return ts.Or(ts.BVCmp("bvslt", s.t, ts.BV(uint64(lo), w)), ts.BVCmp("bvsgt", s.t, ts.BV(uint64(hi), w)))
			}
			return ts.Or(ts.BVCmp("bvult", s.t, ts.BV(uint64(lo), w)), ts.BVCmp("bvugt", s.t, ts.BV(uint64(hi), w)))
		}
		return ts.Eq(s.t, ts.BV(uint64(lo+int64(j)), w))
	})
	if c == n-1 {
		return 0, false
	}
	return lo + int64(c), true
}
