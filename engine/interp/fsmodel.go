package interp

// M-FS: in-memory model of the file system at the os / io / path/filepath
// boundary. Paths are concrete strings. Data files hold tagged content
// segments with (possibly symbolic) offsets; small files hold byte blobs
// (including opaque JSON documents, see jsonmodel.go). Every mutating call is
// a numbered crash point.

import (
	"fmt"
	"os"
	"go/token"
	"go/types"
	"path/filepath"
	"sort"
	"strings"
)

type fseg struct {
	off, n value // file bytes [off, off+n)
	tag    string
	src    value // = content(tag)[src, src+n)
}

type fnode struct {
	dir   bool
	size  value
	mtime value
	segs  []fseg
	blob  []value
	isBlob bool
}

type mfs struct {
	nodes     map[string]*fnode
	mutations int
	crashAt   int
	monitor   value
	oplog     []string
	versions  map[string]value // content tag -> full size
	badHash   int
}

type fhandle struct {
	path   string
	node   *fnode
	pos    value
	wr, rd bool
	app    bool
	closed bool
	dirpos int
}

type crashPanic struct{}

var debugFS = os.Getenv("VERIF_DEBUG_FS") != ""

func (w *World) FS() *mfs {
	if w.fs == nil {
		w.fs = &mfs{nodes: map[string]*fnode{"/": {dir: true, size: int64(0), mtime: int64(0)}}, versions: map[string]value{}}
	}
	return w.fs
}

func (i *interpreter) fsPath(v value) string {
	switch p := v.(type) {
	case string:
		if strings.Contains(p, symMarker) {
			panic(engineError{"file path built from a symbolic value"})
		}
		if !filepath.IsAbs(p) {
			p = filepath.Join("/work", p)
		}
		return filepath.Clean(p)
	case symstr:
		// structure ('/' and '.') is decided; other symbolic bytes become
		// placeholder bytes (distinct symbolic bytes are treated as distinct)
		q := i.surrogate(p, "/.")
		if !filepath.IsAbs(q) {
			q = filepath.Join("/work", q)
		}
		return filepath.Clean(q)
	}
	panic(engineError{fmt.Sprintf("fsPath: %T", v)})
}

// op records an operation, calls the harness monitor, and for mutations
// counts the crash point.
func (i *interpreter) fsOp(op, path string, mutating bool) {
	fs := i.world.FS()
	if mutating {
		fs.mutations++
		if fs.crashAt > 0 && fs.mutations == fs.crashAt {
			panic(crashPanic{})
		}
	}
	if debugFS {
		fmt.Fprintf(os.Stderr, "fs: %s %s (mutation %v #%d)\n", op, path, mutating, fs.mutations)
	}
	if len(fs.oplog) < 4000 {
		fs.oplog = append(fs.oplog, op+" "+path)
	}
	if fs.monitor != nil {
		m := fs.monitor
		fs.monitor = nil // no re-entrancy
		call(i, i.curFrame, 0, m, []value{op, path})
		fs.monitor = m
	}
	if i.world.delayAtFS > 0 && i.sched.cur != i.sched.main {
		if i.world.delayAtFS--; i.world.delayAtFS == 0 {
			// one preemption: this goroutine is held right after this call
			// until no other goroutine can run
			g := i.sched.cur
			g.delayed = true
			i.yield()
			g.delayed = false
			return
		}
	}
	if (i.world.yieldOnRead && op == "read") || (i.world.yieldOnFS && i.sched.cur != i.sched.main) {
		// reading file content takes long: let every other runnable goroutine
		// run first (a second deterministic schedule, chosen per harness)
		i.yield()
	}
}

func (fs *mfs) parentOK(path string) bool {
	d := filepath.Dir(path)
	n := fs.nodes[d]
	return n != nil && n.dir
}

func (i *interpreter) pathError(op, path, kind string) value {
	// *fs.PathError{Op, Path, Err}
	fsPkg := i.prog.ImportedPackage("io/fs")
	if fsPkg == nil {
		return i.newError(op+" "+path+": "+kind, nil)
	}
	var errName string
	switch kind {
	case "notexist":
		errName = "ErrNotExist"
	case "exist":
		errName = "ErrExist"
	default:
		errName = "ErrInvalid"
	}
	g := fsPkg.Var(errName)
	peT := fsPkg.Type("PathError").Type()
	var s value = structure{op, path, *i.global(g)}
	return iface{types.NewPointer(peT), &s}
}

// errIs reports whether err is (or wraps, via PathError/LinkError/SyscallError)
// the io/fs sentinel named errName.
func (i *interpreter) errIs(err value, errName string) bool {
	e, ok := err.(iface)
	if !ok || e.t == nil {
		return false
	}
	fsPkg := i.prog.ImportedPackage("io/fs")
	if fsPkg == nil {
		return false
	}
	target := (*i.global(fsPkg.Var(errName))).(iface)
	for depth := 0; depth < 6; depth++ {
		if sameType(e.t, target.t) {
			if b, ok := i.equalsV(e.t, e.v, target.v).(bool); ok && b {
				return true
			}
		}
		// unwrap *fs.PathError / *os.LinkError / *os.SyscallError
		if p, ok := e.t.(*types.Pointer); ok {
			if n, ok := p.Elem().(*types.Named); ok {
				switch n.Obj().Name() {
				case "PathError", "LinkError", "SyscallError":
					s := (*(e.v.(*value))).(structure)
					inner, ok := s[len(s)-1].(iface)
					if !ok || inner.t == nil {
						return false
					}
					e = inner
					continue
				}
			}
		}
		if e.t == wrapErrorType {
			e = e.v.(structure)[1].(iface)
			continue
		}
		return false
	}
	return false
}

func (i *interpreter) now() value { return i.world.Now() }

func (fs *mfs) children(dir string) []string {
	var out []string
	prefix := dir
	if !strings.HasSuffix(prefix, "/") {
		prefix += "/"
	}
	for p := range fs.nodes {
		if p != dir && strings.HasPrefix(p, prefix) && !strings.Contains(p[len(prefix):], "/") {
			out = append(out, p)
		}
	}
	sort.Strings(out)
	return out
}

func (i *interpreter) touchDir(path string) {
	if d := i.world.FS().nodes[filepath.Dir(path)]; d != nil {
		d.mtime = i.now()
	}
}

// ---------------------------------------------------------------------------
// handles

func (i *interpreter) newHandle(h *fhandle) value {
	var cell value = &native{h}
	return &cell
}

func handleOf(v value) *fhandle {
	p, ok := v.(*value)
	if !ok || p == nil {
		panic(targetPanic{iface{types.Typ[types.String], "invalid memory address or nil pointer dereference (nil *os.File)"}})
	}
	n, ok := (*p).(*native)
	if !ok {
		panic(engineError{"*os.File not created by the file-system model"})
	}
	return n.v.(*fhandle)
}

const (
	oWRONLY = 0x1
	oRDWR   = 0x2
	oAPPEND = 0x400
	oCREATE = 0x40
	oEXCL   = 0x80
	oTRUNC  = 0x200
)

func (i *interpreter) fsOpen(path string, flag int) value {
	fs := i.world.FS()
	create := flag&oCREATE != 0
	n := fs.nodes[path]
	// every open is a crash point (a crash before a read-only open leaves the
	// same state as the point before it; counting it keeps the numbering simple)
	i.fsOp("open", path, true)
	if n == nil {
		if !create {
			return tuple{(*value)(nil), i.pathError("open", path, "notexist")}
		}
		if !fs.parentOK(path) {
			return tuple{(*value)(nil), i.pathError("open", path, "notexist")}
		}
		n = &fnode{size: int64(0), mtime: i.now()}
		fs.nodes[path] = n
		i.touchDir(path)
	} else if create && flag&oEXCL != 0 {
		return tuple{(*value)(nil), i.pathError("open", path, "exist")}
	} else if n.dir && flag&(oWRONLY|oRDWR) != 0 {
		return tuple{(*value)(nil), i.pathError("open", path, "invalid")} // is a directory
	}
	if flag&oTRUNC != 0 && !n.dir {
		n.size, n.segs, n.blob, n.isBlob = int64(0), nil, nil, false
		n.mtime = i.now()
	}
	h := &fhandle{path: path, node: n, pos: int64(0), rd: flag&oWRONLY == 0, wr: flag&(oWRONLY|oRDWR) != 0, app: flag&oAPPEND != 0}
	return tuple{i.newHandle(h), iface{}}
}

// writeSeg writes content(tag)[src,src+n) at offset off of node, keeping the
// segment list sorted and non-overlapping (comparisons on symbolic offsets
// fork).
func (i *interpreter) writeSeg(nd *fnode, off, n value, tag string, src value) {
	if nd.isBlob {
		if len(nd.blob) > 0 {
			panic(engineError{"tagged content written into a byte-blob file"})
		}
		nd.isBlob = false
	}
	end := binop(i, tokenADD, nil, off, n)
	var out []fseg
	inserted := false
	for _, s := range nd.segs {
		send := binop(i, tokenADD, nil, s.off, s.n)
		switch {
		case i.truth("fs:seg-before", binop(i, tokenLEQ, nil, send, off)):
			out = append(out, s)
		case i.truth("fs:seg-after", binop(i, tokenGEQ, nil, s.off, end)):
			if !inserted {
				out = append(out, fseg{off, n, tag, src})
				inserted = true
			}
			out = append(out, s)
		default:
			// overlap: keep the parts of s outside [off,end)
			if i.truth("fs:seg-left", binop(i, tokenLSS, nil, s.off, off)) {
				out = append(out, fseg{s.off, binop(i, tokenSUB, nil, off, s.off), s.tag, s.src})
			}
			if !inserted {
				out = append(out, fseg{off, n, tag, src})
				inserted = true
			}
			if i.truth("fs:seg-right", binop(i, tokenGTR, nil, send, end)) {
				d := binop(i, tokenSUB, nil, end, s.off)
				out = append(out, fseg{end, binop(i, tokenSUB, nil, send, end), s.tag, binop(i, tokenADD, nil, s.src, d)})
			}
		}
	}
	if !inserted {
		out = append(out, fseg{off, n, tag, src})
	}
	nd.segs = out
	if i.truth("fs:grow", binop(i, tokenGTR, nil, end, nd.size)) {
		nd.size = end
	}
	nd.mtime = i.now()
}

// isExactly decides whether the file's content is exactly content(tag)[0,size)
// with size equal to the declared size of that version.
func (i *interpreter) isExactly(nd *fnode, tag string) bool {
	fs := i.world.FS()
	if nd.isBlob || nd.dir {
		return false
	}
	full, ok := fs.versions[tag]
	if !ok {
		return false
	}
	if !i.truth("fs:size-eq", i.equalsV(types.Typ[types.Int64], nd.size, full)) {
		return false
	}
	var pos value = int64(0)
	for _, s := range nd.segs {
		if s.tag != tag {
			return false
		}
		if !i.truth("fs:contig", i.equalsV(types.Typ[types.Int64], s.off, pos)) {
			return false
		}
		if !i.truth("fs:src-eq", i.equalsV(types.Typ[types.Int64], s.src, s.off)) {
			return false
		}
		pos = binop(i, tokenADD, nil, s.off, s.n)
	}
	return i.truth("fs:covers", i.equalsV(types.Typ[types.Int64], pos, nd.size))
}

// contentHash is the model MD5 of a file: "md5-<tag>" iff the content is
// exactly a declared version, otherwise a fresh value no announced hash equals.
func (i *interpreter) contentHash(nd *fnode) string {
	fs := i.world.FS()
	var tags []string
	for t := range fs.versions {
		tags = append(tags, t)
	}
	sort.Strings(tags)
	for _, t := range tags {
		if len(nd.segs) > 0 && nd.segs[0].tag == t && i.isExactly(nd, t) {
			return "md5-" + t
		}
	}
	fs.badHash++
	return fmt.Sprintf("md5-other-%d", fs.badHash)
}

func cloneNodeContent(dst, src *fnode) {
	dst.size = src.size
	dst.segs = append([]fseg(nil), src.segs...)
	dst.blob = append([]value(nil), src.blob...)
	dst.isBlob = src.isBlob
}

// creader is a harness reader delivering n bytes of content(tag) from offset
// src, optionally fewer (short) and optionally ending with an error.
type creader struct {
	tag   string
	src   value
	n     value
	done  bool
	fail  bool
}

const (
	tokenLEQ = token.LEQ
	tokenGEQ = token.GEQ
	tokenLSS = token.LSS
	tokenGTR = token.GTR
)
