package interp

// Intrinsics: verifrt API, sync, sync/atomic, time, fmt, errors, logging.
// Keys are ssa.Function.String() names.

import (
	"fmt"
	"go/token"
	"go/types"
	"strings"
	"time"
)

const tokenADD = token.ADD
const tokenSUB = token.SUB

const vrt = "(*" + VerifrtPath + ".T)."
const vrp = VerifrtPath + "."
const stslog = RepoModule + "/log."

func init() {
	for k, v := range map[string]externalFn{
		// ---- verifrt
		vrt + "Param":    vrtParam,
		vrt + "Bool":     func(fr *frame, a []value) value { return fr.i.fresh("bool", a[1].(string), types.Bool) },
		vrt + "Int64":    func(fr *frame, a []value) value { return fr.i.fresh("int64", a[1].(string), types.Int64) },
		vrt + "Int":      func(fr *frame, a []value) value { return fr.i.fresh("int", a[1].(string), types.Int) },
		vrt + "Byte":     func(fr *frame, a []value) value { return fr.i.fresh("byte", a[1].(string), types.Uint8) },
		vrt + "Choose":   vrtChoose,
		vrt + "Assume":   func(fr *frame, a []value) value { fr.i.assume(a[1]); return nil },
		vrt + "Assert":   func(fr *frame, a []value) value { fr.i.assert(a[1], a[2].(string), "", nil); return nil },
		vrt + "AssertKF": func(fr *frame, a []value) value { fr.i.assert(a[1], a[2].(string), a[3].(string), a[4]); return nil },
		vrt + "Reach":    func(fr *frame, a []value) value { fr.i.reach(a[1].(string)); return nil },
		vrt + "Symbolic": func(fr *frame, a []value) value { return true },
		vrt + "Note":     func(fr *frame, a []value) value { fr.i.path.trace = append(fr.i.path.trace, toString(a[1])); return nil },
		vrt + "Quiesce":  func(fr *frame, a []value) value { fr.i.quiesceAll(); return nil },
		vrt + "Now":      func(fr *frame, a []value) value { return mkTime(fr.i.world.Now()) },
		vrt + "TimeAgo":  vrtTimeAgo,
		vrt + "Time": func(fr *frame, a []value) value {
			i := fr.i
			ts := i.ts()
			t := i.fresh("int64", a[1].(string), types.Int64).(symv)
			i.path.addPC(ts.BVCmp("bvsle", ts.BV(1, 64), t.t))
			i.path.addPC(ts.BVCmp("bvslt", t.t, ts.BV(1<<62, 64)))
			return mkTime(t)
		},
		// AnyTime(tag): an instant before or after the epoch, never the epoch
		// itself (0 stands for the zero Time in the clock model)
		vrt + "AnyTime": func(fr *frame, a []value) value {
			i := fr.i
			ts := i.ts()
			t := i.fresh("int64", a[1].(string), types.Int64).(symv)
			i.path.addPC(ts.BVCmp("bvslt", ts.BV(uint64(1<<64-1<<62), 64), t.t))
			i.path.addPC(ts.BVCmp("bvslt", t.t, ts.BV(1<<62, 64)))
			i.path.addPC(ts.Not(ts.Eq(t.t, ts.BV(0, 64))))
			return mkTime(t)
		},
		vrt + "Advance": func(fr *frame, a []value) value { fr.i.world.Advance(a[1]); return nil },
		vrt + "Duration": vrtDuration,
		vrt + "Live":     func(fr *frame, a []value) value { return len(fr.i.liveGoroutines()) },
		vrp + "And":      func(fr *frame, a []value) value { return fr.i.andValues(a[0], a[1]) },
		vrp + "Or": func(fr *frame, a []value) value {
			return fr.i.notValue(fr.i.andValues(fr.i.notValue(a[0]), fr.i.notValue(a[1])))
		},
		vrp + "Not": func(fr *frame, a []value) value { return fr.i.notValue(a[0]) },
		vrp + "Implies": func(fr *frame, a []value) value {
			return fr.i.notValue(fr.i.andValues(a[0], fr.i.notValue(a[1])))
		},
		vrp + "Ite64": func(fr *frame, a []value) value { return fr.i.iteValue(a[0], a[1], a[2]) },
		vrp + "Register": func(fr *frame, a []value) value { return nil },
		// ContentByte(tag, off): byte off of the (arbitrary) content named tag —
		// an uninterpreted function of the offset
		vrp + "ContentByte": func(fr *frame, a []value) value {
			ts := fr.i.ts()
			return mkval(ts.UF("content_"+sanitize(a[0].(string)), bvSort(8), fr.i.term(a[1])), types.Uint8)
		},

		// ---- repo logging: no-ops (M-LOGGER)
		stslog + "Debug": logNop, stslog + "Info": logNop, stslog + "Error": logNop,
		stslog + "Init": nop, stslog + "InitExternal": nop, stslog + "SetDebug": nop,
		stslog + "GetDebug": func(fr *frame, a []value) value { return false },
		stslog + "check":    nop,

		// ---- sync
		"(*sync.Mutex).Lock":      mutexLock,
		"(*sync.Mutex).Unlock":    mutexUnlock,
		"(*sync.Mutex).TryLock":   mutexTryLock,
		"(*sync.RWMutex).Lock":    mutexLock,
		"(*sync.RWMutex).Unlock":  mutexUnlock,
		"(*sync.RWMutex).RLock":   rwRLock,
		"(*sync.RWMutex).RUnlock": rwRUnlock,
		"(*sync.WaitGroup).Add":   wgAdd,
		"(*sync.WaitGroup).Done":  func(fr *frame, a []value) value { return wgAdd(fr, []value{a[0], -1}) },
		"(*sync.WaitGroup).Wait":  wgWait,
		"(*sync.WaitGroup).Go":    wgGo,
		"(*sync.Once).Do":         onceDo,

		// ---- sync/atomic (leaf functions; the typed wrappers are interpreted)
		"sync/atomic.LoadInt32": atomicLoad, "sync/atomic.LoadInt64": atomicLoad, "sync/atomic.LoadUint32": atomicLoad,
		"sync/atomic.LoadUint64": atomicLoad, "sync/atomic.LoadPointer": atomicLoad, "sync/atomic.LoadUintptr": atomicLoad,
		"sync/atomic.StoreInt32": atomicStore, "sync/atomic.StoreInt64": atomicStore, "sync/atomic.StoreUint32": atomicStore,
		"sync/atomic.StoreUint64": atomicStore, "sync/atomic.StorePointer": atomicStore, "sync/atomic.StoreUintptr": atomicStore,
		"sync/atomic.AddInt32": atomicAdd, "sync/atomic.AddInt64": atomicAdd, "sync/atomic.AddUint32": atomicAdd,
		"sync/atomic.AddUint64": atomicAdd, "sync/atomic.AddUintptr": atomicAdd,
		"sync/atomic.CompareAndSwapInt32": atomicCAS, "sync/atomic.CompareAndSwapInt64": atomicCAS,
		"sync/atomic.CompareAndSwapUint32": atomicCAS, "sync/atomic.CompareAndSwapUint64": atomicCAS,
		"sync/atomic.SwapInt32": atomicSwap, "sync/atomic.SwapInt64": atomicSwap, "sync/atomic.SwapUint32": atomicSwap, "sync/atomic.SwapUint64": atomicSwap,
		"(*sync/atomic.Int32).Load": atomicLoadF, "(*sync/atomic.Int64).Load": atomicLoadF, "(*sync/atomic.Uint32).Load": atomicLoadF,
		"(*sync/atomic.Uint64).Load": atomicLoadF, "(*sync/atomic.Bool).Load": atomicBoolLoad,
		"(*sync/atomic.Int32).Store": atomicStoreF, "(*sync/atomic.Int64).Store": atomicStoreF, "(*sync/atomic.Uint32).Store": atomicStoreF,
		"(*sync/atomic.Uint64).Store": atomicStoreF, "(*sync/atomic.Bool).Store": atomicBoolStore,
		"(*sync/atomic.Int32).Add": atomicAddF, "(*sync/atomic.Int64).Add": atomicAddF, "(*sync/atomic.Uint32).Add": atomicAddF, "(*sync/atomic.Uint64).Add": atomicAddF,

		// ---- time
		"time.Now":   func(fr *frame, a []value) value { return mkTime(fr.i.world.Now()) },
		"time.Since": func(fr *frame, a []value) value { return binop(fr.i, tokenSUB, nil, fr.i.world.Now(), timeNS(a[0])) },
		"time.Until": func(fr *frame, a []value) value { return binop(fr.i, tokenSUB, nil, timeNS(a[0]), fr.i.world.Now()) },
		"(time.Time).After":  func(fr *frame, a []value) value { return binop(fr.i, token.GTR, nil, timeNS(a[0]), timeNS(a[1])) },
		"(time.Time).Before": func(fr *frame, a []value) value { return binop(fr.i, token.LSS, nil, timeNS(a[0]), timeNS(a[1])) },
		"(time.Time).Equal":  func(fr *frame, a []value) value { return binop(fr.i, token.EQL, types.Typ[types.Int64], timeNS(a[0]), timeNS(a[1])) },
		"(time.Time).Compare": func(fr *frame, a []value) value {
			x, y := timeNS(a[0]), timeNS(a[1])
			lt := binop(fr.i, token.LSS, nil, x, y)
			gt := binop(fr.i, token.GTR, nil, x, y)
			return fr.i.iteValue(lt, -1, fr.i.iteValue(gt, 1, 0))
		},
		"(time.Time).Sub":      func(fr *frame, a []value) value { return binop(fr.i, tokenSUB, nil, timeNS(a[0]), timeNS(a[1])) },
		"(time.Time).Add":      func(fr *frame, a []value) value { return mkTime(binop(fr.i, tokenADD, nil, timeNS(a[0]), a[1])) },
		"(time.Time).IsZero":   func(fr *frame, a []value) value { return binop(fr.i, token.EQL, types.Typ[types.Int64], timeNS(a[0]), int64(0)) },
		"(time.Time).UnixNano": func(fr *frame, a []value) value { return timeNS(a[0]) },
		"(time.Time).Unix":     timeUnix,
		"(time.Time).Nanosecond": func(fr *frame, a []value) value {
			if ns := timeNS(a[0]); isSym(ns) {
				_, rem := fr.i.unixParts(ns)
				return symv{rem.t, types.Int}
			}
			return int(concreteTime(a[0], "Nanosecond").Nanosecond())
		},
		"(time.Time).UTC":   func(fr *frame, a []value) value { return a[0] },
		"(time.Time).Local": func(fr *frame, a []value) value { return a[0] },
		"(time.Time).Round": func(fr *frame, a []value) value { return a[0] },
		"(time.Time).In":    func(fr *frame, a []value) value { return a[0] },
		"(time.Time).Year":  func(fr *frame, a []value) value { return fr.i.dayOf(a[0], "Year").Year() },
		"(time.Time).Month": func(fr *frame, a []value) value { return int(fr.i.dayOf(a[0], "Month").Month()) },
		"(time.Time).Day":   func(fr *frame, a []value) value { return fr.i.dayOf(a[0], "Day").Day() },
		"(time.Time).Hour":  func(fr *frame, a []value) value { return concreteTime(a[0], "Hour").Hour() },
		"(time.Time).YearDay": func(fr *frame, a []value) value { return fr.i.dayOf(a[0], "YearDay").YearDay() },
		"(time.Time).Format": func(fr *frame, a []value) value {
			if isSym(timeNS(a[0])) {
				return symMarker // only ever logged; comparing it aborts the path
			}
			return concreteTime(a[0], "Format").Format(a[1].(string))
		},
		"(time.Time).String": func(fr *frame, a []value) value { return "<time>" },
		"(time.Time).AddDate": func(fr *frame, a []value) value {
			t := concreteTime(a[0], "AddDate").AddDate(a[1].(int), a[2].(int), a[3].(int))
			return mkTime(t.UnixNano())
		},
		"(time.Time).Truncate": func(fr *frame, a []value) value {
			t := concreteTime(a[0], "Truncate").Truncate(time.Duration(a[1].(int64)))
			return mkTime(t.UnixNano())
		},
		"time.Unix": func(fr *frame, a []value) value {
			sec, nsec := a[0], a[1]
			if isSym(sec) || isSym(nsec) {
				// (overflow of sec*1e9 wraps here while the real Time saturates
				// nothing either: instants outside +-292 years are outside the model)
				return mkTime(binop(fr.i, tokenADD, nil, binop(fr.i, token.MUL, nil, sec, int64(1_000_000_000)), nsec))
			}
			return mkTime(sec.(int64)*1_000_000_000 + nsec.(int64))
		},
		"time.Date": func(fr *frame, a []value) value {
			t := time.Date(a[0].(int), time.Month(a[1].(int)), a[2].(int), a[3].(int), a[4].(int), a[5].(int), a[6].(int), time.UTC)
			return mkTime(t.UnixNano())
		},
		"(time.Duration).Seconds": durF(func(d time.Duration) value { return d.Seconds() }),
		"(time.Duration).Minutes": durF(func(d time.Duration) value { return d.Minutes() }),
		"(time.Duration).Hours":   durF(func(d time.Duration) value { return d.Hours() }),
		"(time.Duration).String":  durF(func(d time.Duration) value { return d.String() }),
		"(time.Duration).Milliseconds": func(fr *frame, a []value) value {
			if isSym(a[0]) {
				panic(engineError{"Duration.Milliseconds on symbolic value"})
			}
			return a[0].(int64) / 1_000_000
		},
		"(time.Duration).Nanoseconds": func(fr *frame, a []value) value { return a[0] },
		"(time.Duration).Round": func(fr *frame, a []value) value {
			d, ok1 := a[0].(int64)
			m, ok2 := a[1].(int64)
			if !ok1 || !ok2 {
				panic(engineError{"Duration.Round on a symbolic duration"})
			}
			return int64(time.Duration(d).Round(time.Duration(m)))
		},
		"(time.Duration).Truncate": func(fr *frame, a []value) value {
			d, ok1 := a[0].(int64)
			m, ok2 := a[1].(int64)
			if !ok1 || !ok2 {
				panic(engineError{"Duration.Truncate on a symbolic duration"})
			}
			return int64(time.Duration(d).Truncate(time.Duration(m)))
		},
		"time.Sleep":                  timeSleep,
		"time.After":                  timeAfter,
		"time.AfterFunc":              timeAfterFunc,
		"time.NewTimer":               timeNewTimer,
		"time.NewTicker":              timeNewTicker,
		"(*time.Timer).Stop":          timerStop,
		"(*time.Timer).Reset":         timerReset,
		"(*time.Ticker).Stop":         timerStop,
		"(time.Month).String":         func(fr *frame, a []value) value { return time.Month(a[0].(int)).String() },

		// ---- fmt / errors
		"fmt.Sprintf":  fmtSprintf,
		"fmt.Sprint":   fmtSprint,
		"fmt.Sprintln": fmtSprint,
		"fmt.Errorf":   fmtErrorf,
		"fmt.Println":  nopPrint, "fmt.Printf": nopPrint, "fmt.Print": nopPrint,
		"fmt.Fprintf": nopPrint, "fmt.Fprintln": nopPrint, "fmt.Fprint": nopPrint,
		"errors.Is":     errorsIs,
		"errors.Unwrap": errorsUnwrap,
		"errors.Join":   func(fr *frame, a []value) value { panic(engineError{"errors.Join"}) },
		"log.Println":   nop, "log.Printf": nop, "log.Print": nop,
		"log.Fatalln": logFatal, "log.Fatalf": logFatal, "log.Fatal": logFatal,
		"runtime.Gosched":    func(fr *frame, a []value) value { fr.i.yield(); return nil },
		"runtime.GC":         nop,
		"runtime.GOMAXPROCS": func(fr *frame, a []value) value { return 1 },
		"runtime.NumCPU":     func(fr *frame, a []value) value { return 1 },
		"runtime.NumGoroutine": func(fr *frame, a []value) value { return 1 },
		"runtime.Caller": func(fr *frame, a []value) value { return tuple{uintptr(0), "?", 0, false} },
		"time.Sleep$":    nop,
	} {
		externals[k] = v
	}
}

func nop(fr *frame, a []value) value { return nil }

func nopPrint(fr *frame, a []value) value { return tuple{0, iface{}} }

func logFatal(fr *frame, a []value) value {
	panic(targetPanic{iface{types.Typ[types.String], "log.Fatal called"}})
}

// ---------------------------------------------------------------------------
// verifrt

func vrtParam(fr *frame, a []value) value {
	name := a[1].(string)
	def := a[2].(int)
	ex := fr.i.path.w.ex
	v, ok := ex.Params[name]
	if !ok {
		v = def
	}
	ex.mu.Lock()
	ex.Bounds[name] = v
	ex.mu.Unlock()
	fr.i.recordChoice("param", name, int64(v))
	return v
}

func vrtChoose(fr *frame, a []value) value {
	tag := a[1].(string)
	n := a[2].(int)
	if n <= 0 {
		panic(pathAbort{"assume-false"})
	}
	ts := fr.i.ts()
	c := fr.i.decide("choose:"+tag, n, func(j int) *Term {
		if fx, ok := fixedInputs[tag]; ok && int64(j) != fx {
			return ts.Bool(false) // VERIF_FIX (debugging aid)
		}
		return ts.Bool(true)
	})
	fr.i.recordChoice("choose", tag, int64(c))
	return c
}

// TimeAgo(tag, maxAge) returns an instant in (now-maxAge, now] together with
// its age.
func vrtTimeAgo(fr *frame, a []value) value {
	i := fr.i
	ts := i.ts()
	max := a[2]
	age := i.fresh("int64", a[1].(string), types.Int64).(symv)
	i.path.addPC(ts.BVCmp("bvsle", ts.BV(0, 64), age.t))
	i.path.addPC(ts.BVCmp("bvsle", age.t, i.term(max)))
	now := i.world.Now()
	return tuple{mkTime(binop(i, tokenSUB, nil, now, age)), age}
}

func vrtDuration(fr *frame, a []value) value {
	i := fr.i
	ts := i.ts()
	d := i.fresh("int64", a[1].(string), types.Int64).(symv)
	i.path.addPC(ts.BVCmp("bvsle", i.term(a[2]), d.t))
	i.path.addPC(ts.BVCmp("bvsle", d.t, i.term(a[3])))
	return d
}

// ---------------------------------------------------------------------------
// sync

func (w *World) mutex(p value) *mutexState {
	ptr := p.(*value)
	m := w.mutexes[ptr]
	if m == nil {
		m = &mutexState{}
		w.mutexes[ptr] = m
	}
	return m
}

func mutexLock(fr *frame, a []value) value {
	i := fr.i
	m := i.world.mutex(a[0])
	if m.owner == i.sched.cur {
		panic(pathAbort{"deadlock: mutex locked twice by the same goroutine at " + i.where()})
	}
	if i.world.yieldOnLock && i.sched.cur != i.sched.main {
		// adversarial schedule: a goroutine about to take a lock lets every
		// other runnable goroutine run first
		i.yield()
	}
	i.waitUntil("mutex", func() bool { return m.owner == nil && m.readers == 0 })
	m.owner = i.sched.cur
	return nil
}

func mutexTryLock(fr *frame, a []value) value {
	i := fr.i
	m := i.world.mutex(a[0])
	if m.owner == nil && m.readers == 0 {
		m.owner = i.sched.cur
		return true
	}
	return false
}

func mutexUnlock(fr *frame, a []value) value {
	m := fr.i.world.mutex(a[0])
	if m.owner == nil {
		panic(targetPanic{iface{types.Typ[types.String], "sync: unlock of unlocked mutex"}})
	}
	m.owner = nil
	return nil
}

func rwRLock(fr *frame, a []value) value {
	i := fr.i
	m := i.world.mutex(a[0])
	i.waitUntil("rwmutex", func() bool { return m.owner == nil })
	m.readers++
	return nil
}

func rwRUnlock(fr *frame, a []value) value {
	m := fr.i.world.mutex(a[0])
	if m.readers <= 0 {
		panic(targetPanic{iface{types.Typ[types.String], "sync: RUnlock of unlocked RWMutex"}})
	}
	m.readers--
	return nil
}

func wgAdd(fr *frame, a []value) value {
	w := fr.i.world
	p := a[0].(*value)
	w.wgs[p] += int(asInt64(a[1]))
	if w.wgs[p] < 0 {
		panic(targetPanic{iface{types.Typ[types.String], "sync: negative WaitGroup counter"}})
	}
	return nil
}

func wgWait(fr *frame, a []value) value {
	w := fr.i.world
	p := a[0].(*value)
	fr.i.waitUntil("WaitGroup", func() bool { return w.wgs[p] == 0 })
	return nil
}

func wgGo(fr *frame, a []value) value {
	panic(engineError{"sync.WaitGroup.Go"})
}

func onceDo(fr *frame, a []value) value {
	w := fr.i.world
	p := a[0].(*value)
	if !w.onces[p] {
		w.onces[p] = true
		call(fr.i, fr, 0, a[1], nil)
	}
	return nil
}

func atomicLoad(fr *frame, a []value) value { return *(a[0].(*value)) }
func atomicStore(fr *frame, a []value) value {
	*(a[0].(*value)) = a[1]
	return nil
}
func atomicAdd(fr *frame, a []value) value {
	p := a[0].(*value)
	*p = binop(fr.i, tokenADD, nil, *p, a[1])
	return *p
}
func atomicSwap(fr *frame, a []value) value {
	p := a[0].(*value)
	old := *p
	*p = a[1]
	return old
}
func atomicCAS(fr *frame, a []value) value {
	p := a[0].(*value)
	if fr.i.truth("cas", fr.i.equalsV(nil, *p, a[1])) {
		*p = a[2]
		return true
	}
	return false
}

// typed atomics: struct{_ noCopy; [_ align64;] v T}: the value is the last field
func atomicField(p value) *value {
	s := (*(p.(*value))).(structure)
	return &s[len(s)-1]
}
func atomicLoadF(fr *frame, a []value) value { return *atomicField(a[0]) }
func atomicStoreF(fr *frame, a []value) value {
	*atomicField(a[0]) = a[1]
	return nil
}
func atomicAddF(fr *frame, a []value) value {
	p := atomicField(a[0])
	*p = binop(fr.i, tokenADD, nil, *p, a[1])
	return *p
}
func atomicBoolLoad(fr *frame, a []value) value {
	v := *atomicField(a[0])
	return asInt64(v) != 0
}
func atomicBoolStore(fr *frame, a []value) value {
	var x uint32
	if a[1].(bool) {
		x = 1
	}
	*atomicField(a[0]) = x
	return nil
}

// ---------------------------------------------------------------------------
// time

func concreteTime(t value, what string) time.Time {
	ns := timeNS(t)
	if isSym(ns) {
		panic(engineError{"time.Time." + what + " on a symbolic instant"})
	}
	if ns.(int64) == 0 {
		return time.Time{}
	}
	return time.Unix(0, ns.(int64)).UTC()
}

func timeUnix(fr *frame, a []value) value {
	ns := timeNS(a[0])
	if isSym(ns) {
		// Bit-blasting back ends stall on the multiplication by 1e9; the
		// integer back end (cvc5-int) decides it.
		sec, _ := fr.i.unixParts(ns)
		return sec
	}
	n := ns.(int64)
	if n == 0 {
		return time.Time{}.Unix()
	}
	return n / 1_000_000_000
}

func durF(f func(time.Duration) value) externalFn {
	return func(fr *frame, a []value) value {
		if isSym(a[0]) {
			r := f(time.Duration(0))
			if _, isStr := r.(string); isStr {
				return symMarker
			}
			// Seconds/Minutes/Hours of a symbolic duration: an arbitrary
			// float (over-approximation). In the code under test these only
			// size log-search windows and messages.
			i := fr.i
			i.path.notes = append(i.path.notes, "duration-float-havoc")
			i.world.objID++
			return symv{i.ts().Var(fmt.Sprintf("durfloat!%d", i.world.objID), sortFP), types.Float64}
		}
		return f(time.Duration(a[0].(int64)))
	}
}

func timeSleep(fr *frame, a []value) value {
	i := fr.i
	w := i.world
	if w.now == nil {
		w.Now()
	}
	w.now = binop(i, tokenADD, nil, w.now, a[0])
	i.yield()
	return nil
}

func timeAfter(fr *frame, a []value) value {
	i := fr.i
	i.sched.chanID++
	ch := &mchan{id: i.sched.chanID, capacity: 1}
	i.world.newTimer(a[0], nil, ch)
	return ch
}

// *time.Timer is modelled as a pointer to structure{C chan, r native(mtimer)}
func mkTimerValue(t *mtimer) value {
	var c value = (chan value)(nil)
	if t.ch != nil {
		c = t.ch
	}
	var s value = structure{c, &native{t}}
	return &s
}

func timerOf(v value) *mtimer {
	s := (*(v.(*value))).(structure)
	return s[1].(*native).v.(*mtimer)
}

func timeAfterFunc(fr *frame, a []value) value {
	t := fr.i.world.newTimer(a[0], a[1], nil)
	return mkTimerValue(t)
}

func timeNewTimer(fr *frame, a []value) value {
	i := fr.i
	i.sched.chanID++
	ch := &mchan{id: i.sched.chanID, capacity: 1}
	return mkTimerValue(i.world.newTimer(a[0], nil, ch))
}

func timeNewTicker(fr *frame, a []value) value {
	i := fr.i
	i.sched.chanID++
	ch := &mchan{id: i.sched.chanID, capacity: 1}
	t := i.world.newTimer(a[0], nil, ch)
	t.period = a[0]
	return mkTimerValue(t)
}

func timerStop(fr *frame, a []value) value {
	t := timerOf(a[0])
	was := !t.stopped && !t.fired
	t.stopped = true
	return was
}

func timerReset(fr *frame, a []value) value {
	i := fr.i
	t := timerOf(a[0])
	was := !t.stopped && !t.fired
	t.stopped = false
	t.fired = false
	if i.world.now == nil {
		i.world.Now()
	}
	t.when = binop(i, tokenADD, nil, i.world.now, a[1])
	return was
}

// ---------------------------------------------------------------------------
// fmt

// symMarker marks strings produced from symbolic arguments; comparing such a
// string or using it as a key aborts the path as unsupported.
const symMarker = "\x00<sym>"

func nativeArg(i *interpreter, v value, sym *bool) any {
	switch x := v.(type) {
	case iface:
		if x.t == nil {
			return nil
		}
		// error / Stringer: call the method
		if s, ok := i.callStringMethod(x); ok {
			if strings.Contains(s, symMarker) {
				*sym = true
			}
			return s
		}
		return nativeArg(i, x.v, sym)
	case symv, symstr:
		*sym = true
		return symMarker
	case bool, int, int8, int16, int32, int64, uint, uint8, uint16, uint32, uint64, uintptr, float32, float64, string:
		if s, ok := x.(string); ok && strings.Contains(s, symMarker) {
			*sym = true
		}
		return x
	case *value:
		if x == nil {
			return nil
		}
		return fmt.Sprintf("%p", x)
	case []value:
		out := make([]any, len(x))
		allBytes := len(x) > 0
		for k, e := range x {
			out[k] = nativeArg(i, e, sym)
			if _, ok := out[k].(uint8); !ok {
				allBytes = false
			}
		}
		if allBytes {
			b := make([]byte, len(out))
			for k := range out {
				b[k] = out[k].(uint8)
			}
			return b
		}
		return out
	case structure:
		out := make([]any, len(x))
		for k, e := range x {
			out[k] = nativeArg(i, e, sym)
		}
		return out
	case array:
		out := make([]any, len(x))
		allBytes := len(x) > 0
		for k, e := range x {
			out[k] = nativeArg(i, e, sym)
			if _, ok := out[k].(uint8); !ok {
				allBytes = false
			}
		}
		if allBytes {
			b := make([]byte, len(out))
			for k := range out {
				b[k] = out[k].(uint8)
			}
			return b
		}
		return out
	}
	return fmt.Sprintf("<%T>", v)
}

// callStringMethod calls Error() or String() on an interface value if present.
func (i *interpreter) callStringMethod(x iface) (string, bool) {
	for _, name := range []string{"Error", "String"} {
		ms := i.prog.MethodSets.MethodSet(x.t)
		for k := 0; k < ms.Len(); k++ {
			sel := ms.At(k)
			if sel.Obj().Name() != name {
				continue
			}
			sig := sel.Type().(*types.Signature)
			if sig.Params().Len() != 0 || sig.Results().Len() != 1 {
				continue
			}
			if b, ok := sig.Results().At(0).Type().Underlying().(*types.Basic); !ok || b.Kind() != types.String {
				continue
			}
			var fn value
			if x.t == errorType {
				return x.v.(string), true
			}
			f := i.prog.MethodValue(sel)
			if f == nil {
				continue
			}
			fn = f
			r := call(i, i.curFrame, 0, fn, []value{x.v})
			switch r := r.(type) {
			case string:
				return r, true
			case symstr:
				return symMarker, true
			}
		}
	}
	return "", false
}

func sprintfArgs(i *interpreter, list value) ([]any, bool) {
	var out []any
	sym := false
	for _, a := range list.([]value) {
		out = append(out, nativeArg(i, a, &sym))
	}
	return out, sym
}

func fmtSprintf(fr *frame, a []value) value {
	// fmt.Sprintf("%x", hash.Sum(nil)) of the MD5 model
	if f, ok := a[0].(string); ok && f == "%x" {
		if l := a[1].([]value); len(l) == 1 {
			if e, ok := l[0].(iface); ok {
				if sl, ok := e.v.([]value); ok && len(sl) == 1 {
					if n, ok := sl[0].(*native); ok {
						if s, ok := n.v.(*md5sum); ok {
							return s.hex
						}
					}
				}
			}
		}
	}
	if f, ok := a[0].(string); ok && anySymstrArg(a[1]) {
		return fr.i.symSprintf(f, a[1].([]value))
	}
	if f, ok := a[0].(string); ok && allDecimalVerbs(f) && anySymvArg(a[1]) {
		return fr.i.symSprintf(f, a[1].([]value)) // decimal tokens (dectok.go)
	}
	args, sym := sprintfArgs(fr.i, a[1])
	f, ok := a[0].(string)
	if !ok {
		return symMarker
	}
	// integer verbs print the number, not String() (time.Month, ...)
	if l, ok := a[1].([]value); ok {
		for k, vb := range verbsOf(f) {
			if k < len(l) && k < len(args) && strings.IndexByte("dxXobcU", vb) >= 0 {
				if e, ok := l[k].(iface); ok && e.t != nil {
					if _, isStr := args[k].(string); isStr {
						if _, wasStr := e.v.(string); !wasStr {
							args[k] = nativeArg(fr.i, e.v, &sym)
						}
					}
				}
			}
		}
	}
	s := fmt.Sprintf(f, args...)
	if sym && !strings.Contains(s, symMarker) {
		s += symMarker
	}
	return s
}

func fmtSprint(fr *frame, a []value) value {
	if anySymstrArg(a[0]) {
		return fr.i.symSprint(a[0].([]value), false)
	}
	args, sym := sprintfArgs(fr.i, a[0])
	s := fmt.Sprint(args...)
	if sym && !strings.Contains(s, symMarker) {
		s += symMarker
	}
	return s
}

func fmtErrorf(fr *frame, a []value) value {
	msg, ok := fmtSprintf(fr, a).(string)
	if !ok {
		msg = symMarker // message built from symbolic strings: content not tracked
	}
	// keep %w wrapping: if an argument is an error, remember it for Unwrap
	var wrapped value = iface{}
	if f, ok := a[0].(string); ok && strings.Contains(f, "%w") {
		for _, x := range a[1].([]value) {
			if e, ok := x.(iface); ok && e.t != nil {
				if _, isErr := fr.i.callStringMethod(e); isErr {
					wrapped = e
				}
			}
		}
	}
	return fr.i.newError(msg, wrapped)
}

// newError creates an error value: *engine error struct {msg, wrapped}
// represented with the fake reflect "error" type when nothing is wrapped.
func (i *interpreter) newError(msg string, wrapped value) value {
	if w, ok := wrapped.(iface); ok && w.t != nil {
		return iface{wrapErrorType, structure{msg, w}}
	}
	return iface{errorType, msg}
}

func errorsUnwrap(fr *frame, a []value) value {
	e := a[0].(iface)
	if e.t == wrapErrorType {
		return e.v.(structure)[1]
	}
	if e.t == nil || e.t == errorType {
		return iface{}
	}
	// call Unwrap() error if the dynamic type has it
	if f := fr.i.findMethod(e.t, "Unwrap"); f != nil {
		if r, ok := call(fr.i, fr, 0, f, []value{e.v}).(iface); ok {
			return r
		}
	}
	return iface{}
}

func (i *interpreter) findMethod(t types.Type, name string) value {
	ms := i.prog.MethodSets.MethodSet(t)
	for k := 0; k < ms.Len(); k++ {
		sel := ms.At(k)
		if sel.Obj().Name() == name {
			if f := i.prog.MethodValue(sel); f != nil {
				return f
			}
		}
	}
	return nil
}

func errorsIs(fr *frame, a []value) value {
	err, target := a[0].(iface), a[1].(iface)
	for depth := 0; depth < 10; depth++ {
		if err.t == nil {
			return target.t == nil
		}
		if sameType(err.t, target.t) {
			if b, ok := fr.i.equalsV(err.t, err.v, target.v).(bool); ok && b {
				return true
			}
		}
		next := errorsUnwrap(fr, []value{err}).(iface)
		if next.t == nil {
			return false
		}
		err = next
	}
	return false
}

// dayOf returns (the start of) the UTC calendar day of an instant. For a
// symbolic instant the day is found by binary search over day boundaries,
// forking on the solver's answers (instants of the clock model lie in
// 1970..2100), so calendar arithmetic stays concrete.
func (i *interpreter) dayOf(t value, what string) time.Time {
	ns := timeNS(t)
	if !isSym(ns) {
		return concreteTime(t, what)
	}
	const dayNS = int64(24 * time.Hour)
	lo, hi := int64(0), int64(130*366) // day index since the epoch
	for lo < hi {
		mid := (lo + hi) / 2
		if i.truth("time.day", binop(i, token.LSS, nil, ns, (mid+1)*dayNS)) {
			hi = mid
		} else {
			lo = mid + 1
		}
	}
	return time.Unix(0, lo*dayNS).UTC()
}
