package interp

// Path exploration: decision vectors, re-execution, work list, assertions.

import (
	"fmt"
	"go/types"
	"os"
	"runtime"
	"sort"
	"strings"
	"sync"
	"time"

	"golang.org/x/tools/go/ssa"
)

// engineError aborts a path as unsupported / internal error: the check becomes
// inconclusive, never a pass and never a violation.
type engineError struct{ msg string }

func (e engineError) Error() string { return "engine: " + e.msg }

// pathAbort ends a path normally (infeasible assumption, end of harness ...).
type pathAbort struct{ status string }

var debugStacks = os.Getenv("VERIF_DEBUG_STACKS") != ""
var debugPaths = os.Getenv("VERIF_DEBUG_PATHS") != ""

// killPanic unwinds a parked goroutine at the end of a path.
type killPanic struct{}

type DecisionRec struct {
	Site   string
	N      int
	Choice int
}

type InputRec struct {
	Kind  string `json:"kind"` // int64,int,bool,byte,choose,...
	Tag   string `json:"tag"`
	Var   string `json:"var,omitempty"`
	Value int64  `json:"value"`
	term  *Term
	gokind types.BasicKind
}

type Violation struct {
	Harness   string
	Label     string
	KF        string // known-finding id this violation falls under ("" = none)
	Kind      string // assert | panic
	Inputs    []InputRec
	Decisions []int
	Trace     []string
	Msg       string
	Images    []ImageOut
}

type PathResult struct {
	Status     string
	Violations []*Violation
	Reached    map[string]int
	Asserts    int
	Steps      int
	Decs       []DecisionRec
	Notes      []string
}

// Limits for one harness exploration.
type Limits struct {
	MaxPaths     int
	MaxDepth     int
	MaxSteps     int
	Unwind       int // max symbolic decisions at one instruction in one frame
	MaxViolPerLb int
	Deadline     time.Time
	CrossCheck   bool // re-decide every assertion query with the alternate back end
}

type Explorer struct {
	Eng     *Engine
	Fn      *ssa.Function
	Name    string
	Params  map[string]int
	Known   map[string]bool // known-finding ids that are listed as "known"
	Limits  Limits
	Workers int
	Solver  string
	Timeout int // ms per query
	FastTimeout int // ms for the first attempt of the primary back end

	mu        sync.Mutex
	cond      *sync.Cond
	queue     [][]int
	active    int
	stop      bool
	Paths     int
	StatusCnt map[string]int
	Reached   map[string]int
	Asserts   int
	Steps     int64
	Viol      []*Violation
	violCount map[string]int
	firstViol time.Time
	KFSeen    map[string]*Violation
	Incon     []string // reasons the run is inconclusive
	Stats     SolverStats
	Funcs     map[string]int
	Samples   []string
	Queries   []string
	MaxDepthSeen int
	Bounds    map[string]int // params actually read
	Notes     map[string]int
}

func (ex *Explorer) Run() {
	ex.cond = sync.NewCond(&ex.mu)
	ex.StatusCnt = map[string]int{}
	ex.Reached = map[string]int{}
	ex.violCount = map[string]int{}
	ex.KFSeen = map[string]*Violation{}
	ex.Funcs = map[string]int{}
	ex.Bounds = map[string]int{}
	ex.Notes = map[string]int{}
	ex.queue = [][]int{nil}
	if ex.Workers < 1 {
		ex.Workers = 1
	}
	var wg sync.WaitGroup
	for w := 0; w < ex.Workers; w++ {
		wg.Add(1)
		go func(id int) {
			defer wg.Done()
			ex.worker(id)
		}(w)
	}
	wg.Wait()
}

func (ex *Explorer) inconclusive(why string) {
	ex.mu.Lock()
	defer ex.mu.Unlock()
	for _, s := range ex.Incon {
		if s == why {
			return
		}
	}
	if len(ex.Incon) < 20 {
		ex.Incon = append(ex.Incon, why)
	}
}

type Worker struct {
	ex     *Explorer
	ts     *TermStore
	solver *Solver
	funcs  map[*ssa.Function]int
	nvar   int
	fpabs  map[int]*fpAbs
}

func (ex *Explorer) worker(id int) {
	w := &Worker{ex: ex, ts: NewTermStore(), funcs: map[*ssa.Function]int{}}
	s, err := NewSolverFast(ex.Solver, w.ts, ex.Timeout, ex.FastTimeout)
	if err != nil {
		ex.inconclusive("solver start: " + err.Error())
		return
	}
	w.solver = s
	switch ex.Solver {
	case "cvc5-int", "cvc5":
		s.AltKind = "z3"
	default:
		s.AltKind = "cvc5-int"
	}
	defer func() {
		s.Close()
		ex.mu.Lock()
		ex.Stats.add(s.Stats)
		for f, n := range w.funcs {
			ex.Funcs[f.String()] += n
		}
		ex.mu.Unlock()
	}()
	for {
		ex.mu.Lock()
		for len(ex.queue) == 0 && ex.active > 0 && !ex.stop {
			ex.cond.Wait()
		}
		if ex.stop || len(ex.queue) == 0 {
			ex.mu.Unlock()
			ex.cond.Broadcast()
			return
		}
		// depth-first: take the most recently pushed prefix
		prefix := ex.queue[len(ex.queue)-1]
		ex.queue = ex.queue[:len(ex.queue)-1]
		ex.active++
		ex.mu.Unlock()

		res := w.runPath(prefix)
		if debugPaths {
			fmt.Fprintf(os.Stderr, "path %v -> %s (%d decisions, %d steps, %d asserts)\n", prefix, res.Status, len(res.Decs), res.Steps, res.Asserts)
		}

		ex.mu.Lock()
		ex.active--
		ex.Paths++
		ex.StatusCnt[res.Status]++
		ex.Asserts += res.Asserts
		ex.Steps += int64(res.Steps)
		for k, v := range res.Reached {
			ex.Reached[k] += v
		}
		for _, n := range res.Notes {
			ex.Notes[n]++
		}
		if len(res.Decs) > ex.MaxDepthSeen {
			ex.MaxDepthSeen = len(res.Decs)
		}
		for _, v := range res.Violations {
			if v.KF != "" && ex.Known[v.KF] {
				if _, ok := ex.KFSeen[v.KF]; !ok {
					ex.KFSeen[v.KF] = v
				}
				continue
			}
			key := v.Label
			ex.violCount[key]++
			if ex.violCount[key] <= ex.Limits.MaxViolPerLb {
				ex.Viol = append(ex.Viol, v)
			}
			if ex.firstViol.IsZero() {
				ex.firstViol = time.Now()
			}
		}
		if len(ex.Samples) < 6 && (res.Asserts > 0 || len(res.Violations) > 0) {
			var ds []string
			for _, d := range res.Decs {
				ds = append(ds, fmt.Sprintf("%s=%d/%d", d.Site, d.Choice, d.N))
			}
			ex.Samples = append(ex.Samples, fmt.Sprintf("status=%s asserts=%d decisions=[%s]", res.Status, res.Asserts, strings.Join(ds, " ")))
		}
		if len(ex.Queries) < 3 && res.Asserts > 0 && w.solver.LastQuery != "" {
			q := w.solver.LastQuery
			if len(q) > 1500 {
				q = q[:1500] + "…"
			}
			ex.Queries = append(ex.Queries, q)
		}
		if strings.HasPrefix(res.Status, "unsupported") || strings.HasPrefix(res.Status, "engine") ||
			strings.HasPrefix(res.Status, "unwind") || strings.HasPrefix(res.Status, "limit") ||
			strings.HasPrefix(res.Status, "unknown") || strings.HasPrefix(res.Status, "deadlock") {
			found := false
			for _, s := range ex.Incon {
				if s == res.Status {
					found = true
				}
			}
			if !found && len(ex.Incon) < 20 {
				ex.Incon = append(ex.Incon, res.Status)
			}
		}
		if ex.Paths >= ex.Limits.MaxPaths && len(ex.queue) > 0 {
			ex.Incon = append(ex.Incon, fmt.Sprintf("limit: path budget %d exhausted with %d prefixes pending", ex.Limits.MaxPaths, len(ex.queue)))
			ex.stop = true
		}
		if !ex.firstViol.IsZero() && time.Since(ex.firstViol) > 45*time.Second && len(ex.queue) > 0 && !ex.stop {
			// the check fails anyway: do not spend the whole budget on a tree
			// that already produced counterexamples
			ex.Incon = append(ex.Incon, "limit: exploration stopped 45 s after the first counterexample")
			ex.stop = true
		}
		if !ex.Limits.Deadline.IsZero() && time.Now().After(ex.Limits.Deadline) && (len(ex.queue) > 0 || ex.active > 0) {
			ex.Incon = append(ex.Incon, "limit: wall-clock budget exhausted")
			ex.stop = true
		}
		ex.mu.Unlock()
		ex.cond.Broadcast()
	}
}

func (ex *Explorer) push(prefix []int) {
	ex.mu.Lock()
	ex.queue = append(ex.queue, prefix)
	ex.mu.Unlock()
	ex.cond.Signal()
}

// Path is the state of one execution of the harness.
type Path struct {
	w        *Worker
	prefix   []int
	decs     []DecisionRec
	pc       []*Term
	inputs   []InputRec
	reached  map[string]int
	viol     []*Violation
	asserts  int
	steps    int
	unknowns int
	notes    []string
	tagCount map[string]int
	trace    []string
	images   []*crashImage
	crashCalls int
}

func (p *Path) choices() []int {
	out := make([]int, len(p.decs))
	for i, d := range p.decs {
		out[i] = d.Choice
	}
	return out
}

func (w *Worker) runPath(prefix []int) (res PathResult) {
	p := &Path{w: w, prefix: prefix, reached: map[string]int{}, tagCount: map[string]int{}}
	i := newInterpreter(w.ex.Eng, p)
	res.Status = "ok"
	func() {
		defer func() {
			if r := recover(); r != nil {
				res.Status = i.classifyPanic(r)
			}
			i.killGoroutines()
		}()
		recv := zero(w.ex.Eng.verifT)
		args := []value{&recv}
		call(i, nil, 0, w.ex.Fn, args)
		i.endOfHarness()
	}()
	if p.unknowns > 0 && res.Status == "ok" {
		res.Status = "ok"
		p.notes = append(p.notes, "branch-unknown-kept")
	}
	res.Violations = p.viol
	res.Reached = p.reached
	res.Asserts = p.asserts
	res.Steps = p.steps
	res.Decs = p.decs
	res.Notes = p.notes
	return
}

// classifyPanic maps a Go panic raised while interpreting to a path status;
// target-program panics become violations of kind "panic".
func (i *interpreter) classifyPanic(r any) string {
	p := i.path
	switch r := r.(type) {
	case pathAbort:
		return r.status
	case engineError:
		if debugStacks {
			fmt.Fprintln(os.Stderr, "engineError:", r.msg, i.panicStack)
		}
		return "unsupported: " + r.msg
	case killPanic:
		return "killed"
	case targetPanic:
		msg := toString(r.v)
		i.recordPanic(msg)
		return "panic"
	case exitPanic:
		i.recordPanic(fmt.Sprintf("os.Exit(%d)", int(r)))
		return "panic"
	case runtime.Error:
		msg := r.Error()
		if debugStacks {
			fmt.Fprintln(os.Stderr, "runtime error:", msg, "@", i.where(), i.panicStack)
		}
		if strings.Contains(msg, "nil pointer dereference") || strings.Contains(msg, "index out of range") ||
			strings.Contains(msg, "slice bounds out of range") || strings.Contains(msg, "nil map") {
			// most likely a run-time panic of the target program; reported only
			// after native reproduction
			i.recordPanic("runtime error: " + msg)
			return "panic"
		}
		if debugStacks {
			buf := make([]byte, 8192)
			n := runtime.Stack(buf, false)
			fmt.Fprintln(os.Stderr, string(buf[:n]))
		}
		return "engine: " + msg + " @ " + i.where()
	case string:
		if strings.HasPrefix(r, "interface conversion") || strings.Contains(r, "nil interface") ||
			strings.HasPrefix(r, "value method") || strings.Contains(r, "negative shift") ||
			strings.Contains(r, "call of nil function") {
			i.recordPanic(r)
			return "panic"
		}
		if debugStacks {
			fmt.Fprintln(os.Stderr, "engine string panic:", r, i.panicStack)
		}
		return "engine: " + r + " @ " + i.where()
	default:
		_ = p
		return fmt.Sprintf("engine: %T %v @ %s", r, r, i.where())
	}
}

func (i *interpreter) where() string {
	if i.curFrame == nil {
		return "?"
	}
	var parts []string
	for fr := i.curFrame; fr != nil && len(parts) < 6; fr = fr.caller {
		parts = append(parts, fr.fn.String())
	}
	return strings.Join(parts, " < ")
}

func (i *interpreter) recordPanic(msg string) {
	p := i.path
	v := &Violation{Harness: p.w.ex.Name, Label: "panic", Kind: "panic", Msg: msg + " @ " + i.where(), Decisions: p.choices()}
	// panic under a feasible path condition: take a model of the pc
	res, model := p.w.solver.Check(p.pc, nil, p.inputVars())
	if res == Unsat {
		return
	}
	v.Inputs = p.inputsWithModel(model)
	v.Images = p.imagesWithModel(model)
	p.viol = append(p.viol, v)
}

func (p *Path) inputVars() []*Term {
	var vs []*Term
	for _, in := range p.inputs {
		if in.term != nil {
			vs = append(vs, in.term)
		}
	}
	vs = append(vs, p.imageTerms()...)
	return vs
}

func (p *Path) inputsWithModel(model map[string]uint64) []InputRec {
	out := make([]InputRec, len(p.inputs))
	copy(out, p.inputs)
	for k := range out {
		in := &out[k]
		if in.term != nil {
			bits := model[in.Var]
			if in.gokind == types.Bool {
				in.Value = int64(bits)
			} else if in.gokind == types.Float64 {
				in.Value = int64(bits)
			} else {
				w, signed := kindWidth(in.gokind)
				if signed {
					in.Value = sext(bits, w)
				} else {
					in.Value = int64(bits)
				}
			}
		}
	}
	return out
}

func (i *interpreter) ts() *TermStore { return i.path.w.ts }

func (p *Path) addPC(t *Term) {
	if b, ok := t.boolConst(); ok && b {
		return
	}
	p.pc = append(p.pc, t)
}

// decide picks one of n alternatives; cond(j) is the condition under which
// alternative j is taken (the alternatives must be exhaustive).
func (i *interpreter) decide(site string, n int, cond func(j int) *Term) int {
	p := i.path
	ex := p.w.ex
	idx := len(p.decs)
	if idx < len(p.prefix) {
		c := p.prefix[idx]
		p.addPC(cond(c))
		p.decs = append(p.decs, DecisionRec{site, n, c})
		return c
	}
	if idx >= ex.Limits.MaxDepth {
		panic(pathAbort{fmt.Sprintf("limit: decision depth %d at %s", idx, site)})
	}
	var feas []int
	for j := 0; j < n; j++ {
		t := cond(j)
		if b, ok := t.boolConst(); ok {
			if b {
				feas = append(feas, j)
			}
			continue
		}
		res, _ := p.w.solver.Check(p.pc, []*Term{t}, nil)
		switch res {
		case Sat:
			feas = append(feas, j)
		case Unknown:
			feas = append(feas, j)
			p.unknowns++
		}
	}
	if len(feas) == 0 {
		panic(pathAbort{"infeasible"})
	}
	base := p.choices()
	for _, j := range feas[1:] {
		np := make([]int, len(base)+1)
		copy(np, base)
		np[len(base)] = j
		ex.push(np)
	}
	c := feas[0]
	p.addPC(cond(c))
	p.decs = append(p.decs, DecisionRec{site, n, c})
	return c
}

// decideBool forks on a symbolic condition; returns the side taken.
func (i *interpreter) decideBool(site string, t *Term) bool {
	if b, ok := t.boolConst(); ok {
		return b
	}
	p := i.path
	ex := p.w.ex
	ts := i.ts()
	idx := len(p.decs)
	if idx < len(p.prefix) {
		c := p.prefix[idx]
		if c == 1 {
			p.addPC(t)
		} else {
			p.addPC(ts.Not(t))
		}
		p.decs = append(p.decs, DecisionRec{site, 2, c})
		return c == 1
	}
	if idx >= ex.Limits.MaxDepth {
		panic(pathAbort{fmt.Sprintf("limit: decision depth %d at %s", idx, site)})
	}
	// unwinding control: how often has this site been decided on this path
	resT, _ := p.w.solver.Check(p.pc, []*Term{t}, nil)
	if resT == Unknown {
		p.unknowns++
	}
	if resT == Unsat {
		// pc is satisfiable, so ¬t is: forced choice (recorded so that
		// re-execution along a prefix stays aligned)
		p.addPC(ts.Not(t))
		p.decs = append(p.decs, DecisionRec{site, 2, 0})
		return false
	}
	nt := ts.Not(t)
	resF, _ := p.w.solver.Check(p.pc, []*Term{nt}, nil)
	if resF == Unknown {
		p.unknowns++
	}
	if resF == Unsat {
		p.addPC(t)
		p.decs = append(p.decs, DecisionRec{site, 2, 1})
		return true
	}
	// both feasible: take true now, queue false
	base := p.choices()
	np := make([]int, len(base)+1)
	copy(np, base)
	np[len(base)] = 0
	ex.push(np)
	p.addPC(t)
	p.decs = append(p.decs, DecisionRec{site, 2, 1})
	return true
}

// assume adds c to the path condition; an infeasible assumption ends the path.
func (i *interpreter) assume(c value) {
	p := i.path
	switch c := c.(type) {
	case bool:
		if !c {
			panic(pathAbort{"assume-false"})
		}
		return
	case symv:
		res, _ := p.w.solver.Check(p.pc, []*Term{c.t}, nil)
		if res == Unsat {
			panic(pathAbort{"assume-false"})
		}
		if res == Unknown {
			p.unknowns++
			p.w.ex.inconclusive("unknown: solver returned unknown on an assumption")
		}
		p.addPC(c.t)
		return
	}
	panic(engineError{fmt.Sprintf("assume: %T", c)})
}

// assert checks c under the path condition. With a known-finding id kf and
// trigger, the obligation is decided twice (outside / inside the trigger).
func (i *interpreter) assert(c value, label, kf string, trigger value) {
	p := i.path
	ts := i.ts()
	p.asserts++
	ct := i.boolTerm(c)
	if b, ok := ct.boolConst(); ok && b {
		return
	}
	neg := ts.Not(ct)
	report := func(extra []*Term, kfid string) bool {
		q := append([]*Term{neg}, extra...)
		res, model := p.w.solver.Check(p.pc, q, p.inputVars())
		if p.w.ex.Limits.CrossCheck && res != Unknown {
			if r2 := p.w.solver.Cross(p.pc, q); r2 != Unknown && r2 != res {
				p.w.ex.inconclusive(fmt.Sprintf("solver disagreement on assertion %q: %s says %v, %s says %v", label, p.w.solver.Kind, res, p.w.solver.AltKind, r2))
			}
		}
		switch res {
		case Sat:
			v := &Violation{Harness: p.w.ex.Name, Label: label, Kind: "assert", KF: kfid,
				Inputs: p.inputsWithModel(model), Decisions: p.choices(), Trace: append([]string(nil), p.trace...),
				Images: p.imagesWithModel(model)}
			p.viol = append(p.viol, v)
			return true
		case Unknown:
			p.w.ex.inconclusive("unknown: solver returned unknown on assertion " + label)
		}
		return false
	}
	if kf != "" && p.w.ex.Known[kf] {
		tt := i.boolTerm(trigger)
		report([]*Term{ts.Not(tt)}, "")
		report([]*Term{tt}, kf)
	} else {
		report(nil, "")
	}
	// continue with the assertion assumed (if still feasible)
	res, _ := p.w.solver.Check(p.pc, []*Term{ct}, nil)
	if res == Unsat {
		panic(pathAbort{"assert-always-fails"})
	}
	p.addPC(ct)
}

func (i *interpreter) reach(label string) {
	i.path.reached[label]++
}

// fresh creates a new symbolic input of basic kind k.
func (i *interpreter) fresh(kind string, tag string, k types.BasicKind) value {
	p := i.path
	n := p.tagCount[tag]
	p.tagCount[tag]++
	name := fmt.Sprintf("%s!%d", sanitize(tag), n)
	var s Sort
	switch k {
	case types.Bool:
		s = sortBool
	case types.Float64:
		s = sortFP
	default:
		w, _ := kindWidth(k)
		s = bvSort(w)
	}
	t := i.ts().Var(name, s)
	p.inputs = append(p.inputs, InputRec{Kind: kind, Tag: tag, Var: name, term: t, gokind: k})
	if fx, ok := fixedInputs[tag]; ok && n == 0 && s != sortFP {
		if s == sortBool {
			if fx != 0 {
				p.addPC(t)
			} else {
				p.addPC(i.ts().Not(t))
			}
		} else {
			w, _ := kindWidth(k)
			p.addPC(i.ts().Eq(t, i.ts().BV(uint64(fx), w)))
		}
	}
	return symv{t, k}
}

func (i *interpreter) recordChoice(kind, tag string, val int64) {
	p := i.path
	p.inputs = append(p.inputs, InputRec{Kind: kind, Tag: tag, Value: val})
}

func sanitize(s string) string {
	var sb strings.Builder
	for _, r := range s {
		switch {
		case r >= 'a' && r <= 'z', r >= 'A' && r <= 'Z', r >= '0' && r <= '9', r == '_', r == '.':
			sb.WriteRune(r)
		default:
			sb.WriteByte('_')
		}
	}
	if sb.Len() == 0 {
		return "v"
	}
	return sb.String()
}

func sortedKeys(m map[string]int) []string {
	var ks []string
	for k := range m {
		ks = append(ks, k)
	}
	sort.Strings(ks)
	return ks
}
