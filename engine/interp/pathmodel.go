package interp

// Path functions over symbolic-byte strings by structure-preserving
// surrogates: path/filepath and path only inspect the separator and the dot,
// so every symbolic byte is first decided (is it '/', is it '.', or anything
// else — a three-way fork recorded in the path condition); bytes of the third
// class are replaced by placeholder bytes, the host function runs on the
// surrogate string, and placeholders are mapped back to the symbolic bytes.
// Also: os.Root (OpenRoot) over the file-system model.

import (
	"fmt"
	"go/types"
	"path"
	"path/filepath"
	"reflect"
	"strings"
)

// placeholder returns the surrogate byte of a symbolic byte (stable per path).
func (w *World) placeholder(t *Term, v value) byte {
	if w.place == nil {
		w.place = map[int]byte{}
		w.placeBack = map[byte]value{}
	}
	if b, ok := w.place[t.id]; ok {
		return b
	}
	b := byte(0x80 + len(w.place))
	if len(w.place) >= 0x7e {
		panic(engineError{"too many symbolic path bytes"})
	}
	w.place[t.id] = b
	w.placeBack[b] = v
	return b
}

// surrogate classifies the bytes of s against the special bytes and returns a
// concrete stand-in string.
func (i *interpreter) surrogate(s value, specials string) string {
	switch x := s.(type) {
	case string:
		return x
	case symstr:
		out := make([]byte, len(x.b))
		for k, b := range x.b {
			switch bv := b.(type) {
			case uint8:
				out[k] = bv
			case symv:
				done := false
				for _, sp := range []byte(specials) {
					if i.truth("path-byte", i.equalsV(types.Typ[types.Uint8], bv, sp)) {
						out[k] = sp
						done = true
						break
					}
				}
				if !done {
					out[k] = i.world.placeholder(bv.t, bv)
				}
			}
		}
		return string(out)
	}
	panic(engineError{fmt.Sprintf("surrogate: %T", s)})
}

// unsurrogate maps placeholder bytes back to their symbolic bytes.
func (i *interpreter) unsurrogate(s string) value {
	w := i.world
	any := false
	out := make([]value, len(s))
	for k := 0; k < len(s); k++ {
		if v, ok := w.placeBack[s[k]]; ok && s[k] >= 0x80 {
			out[k] = v
			any = true
		} else {
			out[k] = s[k]
		}
	}
	if !any {
		return s
	}
	return symstr{out}
}

func makePathBridge(f reflect.Value, specials string) externalFn {
	ft := f.Type()
	return func(fr *frame, a []value) value {
		i := fr.i
		symbolic := false
		for _, x := range a {
			if hasSymbolic(x) {
				symbolic = true
			}
		}
		if !symbolic {
			return declined{}
		}
		in := make([]reflect.Value, len(a))
		for k, x := range a {
			var pt reflect.Type
			if ft.IsVariadic() && k >= ft.NumIn()-1 {
				pt = ft.In(ft.NumIn() - 1)
			} else {
				pt = ft.In(k)
			}
			switch pt.Kind() {
			case reflect.String:
				in[k] = reflect.ValueOf(i.surrogate(x, specials))
			case reflect.Slice:
				l := x.([]value)
				sl := make([]string, len(l))
				for j := range l {
					sl[j] = i.surrogate(l[j], specials)
				}
				in[k] = reflect.ValueOf(sl)
			default:
				nv, ok := toNative(x, pt)
				if !ok {
					panic(engineError{"path bridge: unsupported argument"})
				}
				in[k] = nv
			}
		}
		var out []reflect.Value
		if ft.IsVariadic() {
			out = f.CallSlice(in)
		} else {
			out = f.Call(in)
		}
		conv := func(rv reflect.Value) value {
			switch rv.Kind() {
			case reflect.String:
				return i.unsurrogate(rv.String())
			case reflect.Slice:
				res := make([]value, rv.Len())
				for j := range res {
					res[j] = i.unsurrogate(rv.Index(j).String())
				}
				return res
			case reflect.Interface:
				if rv.IsNil() {
					return iface{}
				}
				return i.newError(rv.Interface().(error).Error(), nil)
			}
			return fromNative(rv)
		}
		if len(out) == 1 {
			return conv(out[0])
		}
		t := make(tuple, len(out))
		for k := range out {
			t[k] = conv(out[k])
		}
		return t
	}
}

type mroot struct{ dir string }

func init() {
	pathFns := map[string]any{
		"path/filepath.Join": filepath.Join, "path/filepath.Clean": filepath.Clean, "path/filepath.Dir": filepath.Dir,
		"path/filepath.Base": filepath.Base, "path/filepath.Ext": filepath.Ext, "path/filepath.IsAbs": filepath.IsAbs,
		"path/filepath.IsLocal": filepath.IsLocal, "path/filepath.Split": filepath.Split,
		"path.Join": path.Join, "path.Clean": path.Clean, "path.Dir": path.Dir, "path.Base": path.Base, "path.Ext": path.Ext,
	}
	for name, f := range pathFns {
		old := externals[name]
		br := makePathBridge(reflect.ValueOf(f), "/.")
		n := name
		externals[n] = func(fr *frame, a []value) value {
			r := br(fr, a)
			if _, no := r.(declined); !no {
				return r
			}
			return old(fr, a)
		}
	}
	// strings functions whose only structure is one concrete cut set
	trim := func(name string, f any) {
		old := externals[name]
		externals[name] = func(fr *frame, a []value) value {
			if _, ok := a[0].(symstr); ok {
				if cut, ok := a[1].(string); ok {
					return makePathBridge(reflect.ValueOf(f), cut)(fr, a)
				}
			}
			return old(fr, a)
		}
	}
	trim("strings.Trim", strings.Trim)
	trim("strings.TrimRight", strings.TrimRight)
	trim("strings.TrimLeft", strings.TrimLeft)

	for k, v := range map[string]externalFn{
		"os.OpenRoot": func(fr *frame, a []value) value {
			i := fr.i
			p := i.fsPath(a[0])
			i.fsOp("openroot", p, false)
			n := i.world.FS().nodes[p]
			if n == nil || !n.dir {
				return tuple{(*value)(nil), i.pathError("openroot", p, "notexist")}
			}
			var cell value = &native{&mroot{p}}
			return tuple{&cell, iface{}}
		},
		"(*os.Root).Close": func(fr *frame, a []value) value { return iface{} },
		"(*os.Root).Name":  func(fr *frame, a []value) value { r, _ := nativeOf[*mroot](a[0]); return r.dir },
		"(*os.Root).Stat": func(fr *frame, a []value) value {
			i := fr.i
			r, _ := nativeOf[*mroot](a[0])
			p, ok := i.rootPath(r, a[1])
			if !ok {
				return tuple{iface{}, i.newError("path escapes from parent", nil)}
			}
			return osStat(fr, []value{p})
		},
		"(*os.Root).Open": func(fr *frame, a []value) value {
			i := fr.i
			r, _ := nativeOf[*mroot](a[0])
			p, ok := i.rootPath(r, a[1])
			if !ok {
				return tuple{(*value)(nil), i.newError("path escapes from parent", nil)}
			}
			return i.fsOpen(i.fsPath(p), 0)
		},
		"(*os.Root).Remove": func(fr *frame, a []value) value {
			i := fr.i
			r, _ := nativeOf[*mroot](a[0])
			p, ok := i.rootPath(r, a[1])
			if !ok {
				return i.newError("path escapes from parent", nil)
			}
			return externals["os.Remove"](fr, []value{p})
		},
		"(*os.Root).FS": func(fr *frame, a []value) value {
			r, _ := nativeOf[*mroot](a[0])
			return iface{creaderType, &native{r}} // opaque fs.FS handle (only passed to fs.WalkDir)
		},
		"io/fs.WalkDir": func(fr *frame, a []value) value {
			i := fr.i
			r, ok := nativeOf[*mroot](a[0])
			if !ok {
				panic(engineError{"fs.WalkDir over an unmodelled fs.FS"})
			}
			name, _ := a[1].(string)
			if _, isSym := a[1].(symstr); isSym {
				name = i.surrogate(a[1], "/.")
			}
			start := filepath.Join(r.dir, name)
			fs := i.world.FS()
			var walk func(p, rel string) value
			walk = func(p, rel string) value {
				nd := fs.nodes[p]
				if nd == nil {
					return iface{}
				}
				i.fsOp("walkdir", p, false)
				de := iface{dirEntryType, structure{filepath.Base(p), nd.size, nd.mtime, nd.dir}}
				res := call(i, fr, 0, a[2], []value{rel, de, iface{}}).(iface)
				if res.t != nil {
					return res
				}
				if nd.dir {
					for _, c := range fs.children(p) {
						if e := walk(c, path.Join(rel, filepath.Base(c))).(iface); e.t != nil {
							return e
						}
					}
				}
				return iface{}
			}
			return walk(start, name)
		},
	} {
		externals[k] = v
	}
}

// rootPath resolves name below an os.Root; names that are not local (absolute,
// or with a ".." segment that leaves the root) are refused, as os.Root does.
func (i *interpreter) rootPath(r *mroot, name value) (value, bool) {
	s := i.surrogate(name, "/.")
	if s != "." && !filepath.IsLocal(s) {
		return nil, false
	}
	return filepath.Join(r.dir, s), true
}
