package interp

// Native bridge for pure standard-library functions over concrete values
// (strings, path/filepath, strconv, ...). When every argument is concrete the
// host function is called; if an argument is symbolic the intrinsic declines
// and the function is interpreted from its own SSA (or aborts as unsupported
// where that is impossible).

import (
	"fmt"
	"path"
	"path/filepath"
	"reflect"
	"sort"
	"strconv"
	"strings"
	"time"
	"unicode"
	"unicode/utf8"
)

// declined is returned by an intrinsic that does not handle this call.
type declined struct{}

var nativeFuncs = map[string]any{
	"strings.TrimSuffix": strings.TrimSuffix, "strings.TrimPrefix": strings.TrimPrefix,
	"strings.HasPrefix": strings.HasPrefix, "strings.HasSuffix": strings.HasSuffix,
	"strings.Contains": strings.Contains, "strings.ContainsRune": strings.ContainsRune, "strings.ContainsAny": strings.ContainsAny,
	"strings.Split": strings.Split, "strings.SplitN": strings.SplitN, "strings.Join": strings.Join,
	"strings.Index": strings.Index, "strings.LastIndex": strings.LastIndex, "strings.IndexByte": strings.IndexByte,
	"strings.IndexRune": strings.IndexRune, "strings.IndexAny": strings.IndexAny, "strings.LastIndexByte": strings.LastIndexByte,
	"strings.Replace": strings.Replace, "strings.ReplaceAll": strings.ReplaceAll,
	"strings.ToLower": strings.ToLower, "strings.ToUpper": strings.ToUpper, "strings.TrimSpace": strings.TrimSpace,
	"strings.Trim": strings.Trim, "strings.TrimRight": strings.TrimRight, "strings.TrimLeft": strings.TrimLeft,
	"strings.Fields": strings.Fields, "strings.Repeat": strings.Repeat, "strings.EqualFold": strings.EqualFold,
	"strings.Count": strings.Count, "strings.Compare": strings.Compare, "strings.Cut": strings.Cut,
	"strings.Title":      strings.Title,
	"path/filepath.Join": filepath.Join, "path/filepath.Dir": filepath.Dir, "path/filepath.Ext": filepath.Ext,
	"path/filepath.Base": filepath.Base, "path/filepath.Clean": filepath.Clean, "path/filepath.IsAbs": filepath.IsAbs,
	"path/filepath.Rel": filepath.Rel, "path/filepath.Split": filepath.Split, "path/filepath.ToSlash": filepath.ToSlash,
	"path/filepath.FromSlash": filepath.FromSlash, "path/filepath.VolumeName": filepath.VolumeName,
	"path/filepath.IsLocal": filepath.IsLocal, "path/filepath.Match": filepath.Match,
	"path.Join": path.Join, "path.Dir": path.Dir, "path.Ext": path.Ext, "path.Base": path.Base, "path.Clean": path.Clean,
	"path.IsAbs": path.IsAbs, "path.Split": path.Split,
	"strconv.Itoa": strconv.Itoa, "strconv.FormatInt": strconv.FormatInt, "strconv.Quote": strconv.Quote,
	"strconv.FormatBool": strconv.FormatBool, "strconv.FormatUint": strconv.FormatUint,
	"unicode.IsSpace": unicode.IsSpace, "unicode.IsDigit": unicode.IsDigit, "unicode.IsLetter": unicode.IsLetter,
	"unicode.IsUpper": unicode.IsUpper, "unicode.IsLower": unicode.IsLower, "unicode.ToLower": unicode.ToLower, "unicode.ToUpper": unicode.ToUpper,
	"unicode/utf8.RuneCountInString": utf8.RuneCountInString, "unicode/utf8.ValidString": utf8.ValidString,
	"unicode/utf8.RuneLen": utf8.RuneLen,
	"sort.Strings":         nil, // handled by externals
}

// functions returning (T, error): the error is converted to an engine error value
var nativeErrFuncs = map[string]any{
	"strconv.Atoi": strconv.Atoi, "strconv.ParseInt": strconv.ParseInt, "strconv.ParseUint": strconv.ParseUint,
	"strconv.ParseBool": strconv.ParseBool, "strconv.ParseFloat": strconv.ParseFloat, "strconv.Unquote": strconv.Unquote,
	"time.ParseDuration": func(s string) (int64, error) { d, err := time.ParseDuration(s); return int64(d), err },
	"path/filepath.Abs": func(p string) (string, error) {
		if filepath.IsAbs(p) {
			return filepath.Clean(p), nil
		}
		return filepath.Join("/work", p), nil
	},
	"path/filepath.EvalSymlinks": func(p string) (string, error) { return filepath.Clean(p), nil },
}

func init() {
	for name, f := range nativeFuncs {
		if f == nil {
			continue
		}
		externals[name] = makeNativeBridge(name, reflect.ValueOf(f), false)
	}
	for name, f := range nativeErrFuncs {
		externals[name] = makeNativeBridge(name, reflect.ValueOf(f), true)
	}
}

func hasSymbolic(v value) bool {
	switch v := v.(type) {
	case symv, symstr:
		return true
	case string:
		return strings.Contains(v, symMarker)
	case []value:
		for _, e := range v {
			if hasSymbolic(e) {
				return true
			}
		}
	}
	return false
}

func toNative(v value, t reflect.Type) (reflect.Value, bool) {
	switch t.Kind() {
	case reflect.String:
		if s, ok := v.(string); ok {
			return reflect.ValueOf(s).Convert(t), true
		}
	case reflect.Bool:
		if b, ok := v.(bool); ok {
			return reflect.ValueOf(b), true
		}
	case reflect.Int, reflect.Int8, reflect.Int16, reflect.Int32, reflect.Int64:
		if _, ok := concreteKind(v); ok {
			if _, isb := v.(bool); !isb {
				if _, isf := v.(float64); !isf {
					return reflect.ValueOf(asInt64(v)).Convert(t), true
				}
			}
		}
	case reflect.Uint, reflect.Uint8, reflect.Uint16, reflect.Uint32, reflect.Uint64:
		if _, ok := concreteKind(v); ok {
			if _, isb := v.(bool); !isb {
				return reflect.ValueOf(uint64(asInt64(v))).Convert(t), true
			}
		}
	case reflect.Float64:
		if f, ok := v.(float64); ok {
			return reflect.ValueOf(f), true
		}
	case reflect.Slice:
		sl, ok := v.([]value)
		if !ok {
			return reflect.Value{}, false
		}
		out := reflect.MakeSlice(t, len(sl), len(sl))
		for k, e := range sl {
			ev, ok := toNative(e, t.Elem())
			if !ok {
				return reflect.Value{}, false
			}
			out.Index(k).Set(ev)
		}
		return out, true
	}
	return reflect.Value{}, false
}

func fromNative(rv reflect.Value) value {
	switch rv.Kind() {
	case reflect.String:
		return rv.String()
	case reflect.Bool:
		return rv.Bool()
	case reflect.Int:
		return int(rv.Int())
	case reflect.Int8:
		return int8(rv.Int())
	case reflect.Int16:
		return int16(rv.Int())
	case reflect.Int32:
		return int32(rv.Int())
	case reflect.Int64:
		return rv.Int()
	case reflect.Uint:
		return uint(rv.Uint())
	case reflect.Uint8:
		return uint8(rv.Uint())
	case reflect.Uint16:
		return uint16(rv.Uint())
	case reflect.Uint32:
		return uint32(rv.Uint())
	case reflect.Uint64:
		return rv.Uint()
	case reflect.Float64:
		return rv.Float()
	case reflect.Slice:
		out := make([]value, rv.Len())
		for k := range out {
			out[k] = fromNative(rv.Index(k))
		}
		return out
	}
	panic(engineError{fmt.Sprintf("fromNative: unsupported kind %v", rv.Kind())})
}

func makeNativeBridge(name string, f reflect.Value, withErr bool) externalFn {
	ft := f.Type()
	return func(fr *frame, args []value) value {
		for _, a := range args {
			if hasSymbolic(a) {
				return declined{}
			}
		}
		in := make([]reflect.Value, len(args))
		for k, a := range args {
			var pt reflect.Type
			if ft.IsVariadic() && k >= ft.NumIn()-1 {
				pt = ft.In(ft.NumIn() - 1)
			} else {
				pt = ft.In(k)
			}
			nv, ok := toNative(a, pt)
			if !ok {
				return declined{}
			}
			in[k] = nv
		}
		var out []reflect.Value
		if ft.IsVariadic() {
			out = f.CallSlice(in)
		} else {
			out = f.Call(in)
		}
		if withErr {
			var errv value = iface{}
			if e := out[len(out)-1]; !e.IsNil() {
				errv = fr.i.newError(e.Interface().(error).Error(), nil)
			}
			if len(out) == 2 {
				return tuple{fromNative(out[0]), errv}
			}
		}
		switch len(out) {
		case 0:
			return nil
		case 1:
			return fromNative(out[0])
		}
		t := make(tuple, len(out))
		for k := range out {
			t[k] = fromNative(out[k])
		}
		return t
	}
}

var _ = sort.Strings
