package interp

// M-NET: just enough of net / net/http's server side to run the repo's
// Server.Serve on the model scheduler and to send requests through the route
// table it builds: net.Listen gives a token, (*http.Server).Serve registers
// the server (address, handler) and blocks until Shutdown, http.ServeMux is a
// table of classic patterns (exact path, or longest registered prefix ending
// in '/'; a path that is a registered directory without its slash redirects).
// Connections, TLS, HTTP parsing and HTTP/3 are not modelled: requests are
// handed to the registered handler directly (verifrt.Served).

import (
	"go/types"
	"net/url"
	"sort"
	"strings"
)

type mlistener struct{ addr string }

type mserver struct {
	addr    string
	handler value
	closed  bool
	srv     *value
}

type mmux struct {
	patterns []string
	handlers map[string]value
}

func (i *interpreter) structField(pkg, typ, field string) int {
	p := i.prog.ImportedPackage(pkg)
	if p == nil {
		panic(engineError{"package not loaded: " + pkg})
	}
	st, ok := p.Type(typ).Type().Underlying().(*types.Struct)
	if !ok {
		panic(engineError{"not a struct: " + pkg + "." + typ})
	}
	for k := 0; k < st.NumFields(); k++ {
		if st.Field(k).Name() == field {
			return k
		}
	}
	panic(engineError{"no field " + field + " in " + pkg + "." + typ})
}

func init() {
	for k, v := range map[string]externalFn{
		"net.Listen": func(fr *frame, a []value) value {
			addr, _ := a[1].(string)
			return tuple{iface{t: types.Typ[types.UnsafePointer], v: &native{&mlistener{addr}}}, iface{}}
		},
		"crypto/tls.Listen": func(fr *frame, a []value) value {
			addr, _ := a[1].(string)
			return tuple{iface{t: types.Typ[types.UnsafePointer], v: &native{&mlistener{addr}}}, iface{}}
		},
		"context.Background": func(fr *frame, a []value) value { return iface{} },
		"(*net/http.Server).Serve": func(fr *frame, a []value) value {
			i := fr.i
			p := a[0].(*value)
			s := (*p).(structure)
			addr, _ := s[i.structField("net/http", "Server", "Addr")].(string)
			ms := &mserver{addr: addr, handler: s[i.structField("net/http", "Server", "Handler")], srv: p}
			i.world.servers = append(i.world.servers, ms)
			i.waitUntil("http.Server.Serve", func() bool { return ms.closed })
			return i.sentinel("net/http", "ErrServerClosed")
		},
		"(*net/http.Server).Shutdown": func(fr *frame, a []value) value {
			p := a[0].(*value)
			for _, ms := range fr.i.world.servers {
				if ms.srv == p {
					ms.closed = true
				}
			}
			return iface{}
		},
		"net/http.NewServeMux": func(fr *frame, a []value) value {
			var cell value = &native{&mmux{handlers: map[string]value{}}}
			return &cell
		},
		"(*net/http.ServeMux).Handle": func(fr *frame, a []value) value {
			m, _ := nativeOf[*mmux](a[0])
			pat, ok := a[1].(string)
			if !ok || strings.ContainsAny(pat, " {") || !strings.HasPrefix(pat, "/") {
				panic(engineError{"ServeMux pattern outside the model (method, host or wildcard pattern)"})
			}
			if _, dup := m.handlers[pat]; dup {
				panic(targetPanic{iface{types.Typ[types.String], "http: multiple registrations for " + pat}})
			}
			m.patterns = append(m.patterns, pat)
			m.handlers[pat] = a[2]
			return nil
		},
		"(*net/http.ServeMux).ServeHTTP": func(fr *frame, a []value) value {
			i := fr.i
			m, _ := nativeOf[*mmux](a[0])
			w, _ := a[1].(iface)
			req := a[2].(*value)
			u, _ := (*req).(structure)[i.structField("net/http", "Request", "URL")].(*value)
			if u == nil {
				panic(engineError{"request without URL"})
			}
			path, ok := (*u).(structure)[i.structField("net/url", "URL", "Path")].(string)
			if !ok {
				panic(engineError{"ServeMux: symbolic request path"})
			}
			pats := append([]string(nil), m.patterns...)
			sort.Slice(pats, func(x, y int) bool { return len(pats[x]) > len(pats[y]) })
			for _, pat := range pats {
				if pat == path || (strings.HasSuffix(pat, "/") && strings.HasPrefix(path, pat)) {
					h := m.handlers[pat].(iface)
					if _, ok := i.callMethod(h, "ServeHTTP", a[1], a[2]); !ok {
						panic(engineError{"ServeMux: handler without ServeHTTP"})
					}
					return nil
				}
			}
			if _, ok := m.handlers[path+"/"]; ok {
				i.callMethod(w, "WriteHeader", 301)
				return nil
			}
			i.callMethod(w, "WriteHeader", 404)
			return nil
		},
		vrt + "YieldOnFS": func(fr *frame, a []value) value {
			fr.i.world.yieldOnFS = a[1].(bool)
			return nil
		},
		vrt + "DelayAtFS": func(fr *frame, a []value) value {
			fr.i.world.delayAtFS = a[1].(int)
			return nil
		},
		vrt + "YieldOnLock": func(fr *frame, a []value) value {
			fr.i.world.yieldOnLock = a[1].(bool)
			return nil
		},
		vrt + "YieldOnRead": func(fr *frame, a []value) value {
			fr.i.world.yieldOnRead = a[1].(bool)
			return nil
		},
		// QuiesceTimers(n): like Quiesce, but at most n timers fire while waiting
		// (bounded liveness: a run that keeps arming timers without finishing
		// comes back instead of running into the step limit)
		vrt + "QuiesceTimers": func(fr *frame, a []value) value {
			i := fr.i
			for n := a[1].(int); ; n-- {
				i.quiesceAll()
				if n <= 0 || !i.world.fireEarliestTimer() {
					break
				}
			}
			return nil
		},
		// NextTimer(): quiesce, let the earliest pending timer fire, quiesce
		vrt + "NextTimer": func(fr *frame, a []value) value {
			i := fr.i
			i.quiesceAll()
			fired := i.world.fireEarliestTimer()
			i.quiesceAll()
			return fired
		},
		vrt + "Observed": func(fr *frame, a []value) value {
			x, ok := a[2].(int)
			if !ok {
				panic(engineError{"Observed: the value must be concrete"})
			}
			fr.i.recordChoice("observed", a[1].(string), int64(x))
			return x
		},
		// Served(addr): the handler of the server listening on addr (engine only)
		vrt + "Served": func(fr *frame, a []value) value {
			addr, _ := a[1].(string)
			for _, ms := range fr.i.world.servers {
				if ms.addr == addr && !ms.closed {
					return ms.handler
				}
			}
			return iface{}
		},
	} {
		externals[k] = v
	}
}

func init() {
	externals["(*net/http.Request).Context"] = func(fr *frame, a []value) value { return iface{} }
	// Clone: a copy of the request with its own URL and header map
	externals["(*net/http.Request).Clone"] = func(fr *frame, a []value) value {
		i := fr.i
		src := (*(a[0].(*value))).(structure)
		dst := make(structure, len(src))
		copy(dst, src)
		ui := i.structField("net/http", "Request", "URL")
		if u, ok := src[ui].(*value); ok && u != nil {
			us := (*u).(structure)
			cp := make(structure, len(us))
			copy(cp, us)
			var cell value = cp
			dst[ui] = &cell
		}
		hi := i.structField("net/http", "Request", "Header")
		if h, ok := src[hi].(map[value]value); ok && h != nil {
			dst[hi] = deepCopy(h, map[*value]*value{})
		}
		var cell value = dst
		return &cell
	}
}

// Client side of M-NET: http.NewRequest builds the request value; Client.Do
// hands it to the client's Transport (an interpreted http.RoundTripper: the
// repo's bandwidth monitor around a harness round tripper). Redirects, cookies,
// timeouts and the real transport are not modelled.
func init() {
	externals["net/http.NewRequest"] = func(fr *frame, a []value) value {
		i := fr.i
		method, ok1 := a[0].(string)
		raw, ok2 := a[1].(string)
		if !ok1 || !ok2 {
			panic(engineError{"http.NewRequest with a symbolic method or URL"})
		}
		u, err := url.Parse(raw)
		if err != nil {
			return tuple{(*value)(nil), i.newError(err.Error(), nil)}
		}
		hp := i.prog.ImportedPackage("net/http")
		up := i.prog.ImportedPackage("net/url")
		if hp == nil || up == nil {
			panic(engineError{"net/http not loaded"})
		}
		us := zero(up.Type("URL").Type()).(structure)
		us[i.structField("net/url", "URL", "Scheme")] = u.Scheme
		us[i.structField("net/url", "URL", "Host")] = u.Host
		us[i.structField("net/url", "URL", "Path")] = u.Path
		us[i.structField("net/url", "URL", "RawQuery")] = u.RawQuery
		var ucell value = us
		rs := zero(hp.Type("Request").Type()).(structure)
		rs[i.structField("net/http", "Request", "Method")] = method
		rs[i.structField("net/http", "Request", "URL")] = &ucell
		rs[i.structField("net/http", "Request", "Header")] = map[value]value{}
		rs[i.structField("net/http", "Request", "Host")] = u.Host
		rs[i.structField("net/http", "Request", "Proto")] = "HTTP/1.1"
		if b, ok := a[2].(iface); ok && b.t != nil {
			// the body must be an io.ReadCloser: readers that are not are
			// wrapped (as net/http does with io.NopCloser)
			ms := i.prog.MethodSets.MethodSet(b.t)
			hasClose := false
			for k := 0; k < ms.Len(); k++ {
				if ms.At(k).Obj().Name() == "Close" {
					hasClose = true
				}
			}
			if !hasClose {
				// net/http wraps a plain reader in io.NopCloser
				iop := i.prog.ImportedPackage("io")
				if iop == nil || iop.Func("NopCloser") == nil {
					panic(engineError{"http.NewRequest: io.NopCloser not available"})
				}
				b, _ = call(i, fr, 0, iop.Func("NopCloser"), []value{b}).(iface)
			}
			rs[i.structField("net/http", "Request", "Body")] = b
		}
		var rcell value = rs
		return tuple{&rcell, iface{}}
	}
	externals["(*net/http.Client).Do"] = func(fr *frame, a []value) value {
		i := fr.i
		c := (*(a[0].(*value))).(structure)
		tr, ok := c[i.structField("net/http", "Client", "Transport")].(iface)
		if !ok || tr.t == nil {
			panic(engineError{"http.Client.Do without a Transport (the real network is not modelled)"})
		}
		res, ok := i.callMethod(tr, "RoundTrip", a[1])
		if !ok {
			panic(engineError{"http.Client.Do: Transport without RoundTrip"})
		}
		return res
	}
}
