package interp

// SMT solver process wrapper: one long-lived process per worker, SMT-LIB2 over
// pipes, assertion stack mirroring the path condition.

import (
	"bufio"
	"fmt"
	"io"
	"os"
	"os/exec"
	"sync/atomic"
	"strconv"
	"strings"
	"time"
)

type SatResult int

const (
	Unsat SatResult = iota
	Sat
	Unknown
)

func (r SatResult) String() string {
	switch r {
	case Unsat:
		return "unsat"
	case Sat:
		return "sat"
	}
	return "unknown"
}

type SolverStats struct {
	Queries, Sat, Unsat, Unknown, Errors int
	AltQueries, AltDecided               int
	CrossQueries, CrossDecided           int
	Time                                 time.Duration
	MaxQuery                             time.Duration
}

func (a *SolverStats) add(b SolverStats) {
	a.Queries += b.Queries
	a.Sat += b.Sat
	a.Unsat += b.Unsat
	a.Unknown += b.Unknown
	a.Errors += b.Errors
	a.AltQueries += b.AltQueries
	a.AltDecided += b.AltDecided
	a.CrossQueries += b.CrossQueries
	a.CrossDecided += b.CrossDecided
	a.Time += b.Time
	if b.MaxQuery > a.MaxQuery {
		a.MaxQuery = b.MaxQuery
	}
}

type Solver struct {
	Kind      string // z3, z3-new, cvc5
	timeoutMs int
	cmd       *exec.Cmd
	in        io.WriteCloser
	out       *bufio.Reader
	ts        *TermStore
	defined   map[int]bool
	ufDone    int
	stack     []*Term
	Stats     SolverStats
	LastQuery string // text of the last check (for evidence samples)
	record    bool
	buf       strings.Builder
	nDefined  int
	transcript strings.Builder
	AltKind   string
	alt       *Solver
	full      *Solver
	FastMs    int
	noFast    bool
	curLimit  int
	altStreak int
}

var dumpSlow = os.Getenv("VERIF_DUMP_SLOW")
var dumpN int32

func solverArgs(kind string, timeoutMs int) (string, []string) {
	switch kind {
	case "z3":
		return "/usr/bin/z3", []string{"-in", "-t:" + strconv.Itoa(timeoutMs)}
	case "z3-new":
		return "z3-new", []string{"-in", "-t:" + strconv.Itoa(timeoutMs)}
	case "cvc5":
		return "cvc5", []string{"--incremental", "--lang=smt2", "--produce-models", "--tlimit-per=" + strconv.Itoa(timeoutMs)}
	case "cvc5-int":
		// bit-vectors solved as integers (keeps the mod-2^k semantics): decides
		// linear offset arithmetic in milliseconds where bit-blasting stalls
		return "cvc5", []string{"--incremental", "--lang=smt2", "--produce-models", "--solve-bv-as-int=sum", "--tlimit-per=" + strconv.Itoa(timeoutMs)}
	}
	panic("unknown solver " + kind)
}

func NewSolver(kind string, ts *TermStore, timeoutMs int) (*Solver, error) {
	return NewSolverFast(kind, ts, timeoutMs, 0)
}

func NewSolverFast(kind string, ts *TermStore, timeoutMs, fastMs int) (*Solver, error) {
	s := &Solver{Kind: kind, ts: ts, timeoutMs: timeoutMs, FastMs: fastMs}
	if err := s.start(); err != nil {
		return nil, err
	}
	return s, nil
}

func (s *Solver) start() error {
	lim := s.timeoutMs
	if strings.HasPrefix(s.Kind, "cvc5") && s.FastMs > 0 && !s.noFast && s.FastMs < lim {
		lim = s.FastMs
	}
	s.curLimit = lim
	path, args := solverArgs(s.Kind, lim)
	s.cmd = exec.Command(path, args...)
	in, err := s.cmd.StdinPipe()
	if err != nil {
		return err
	}
	out, err := s.cmd.StdoutPipe()
	if err != nil {
		return err
	}
	s.cmd.Stderr = nil
	if err := s.cmd.Start(); err != nil {
		return err
	}
	s.in = in
	s.out = bufio.NewReaderSize(out, 1<<16)
	s.defined = map[int]bool{}
	s.ufDone = 0
	s.stack = nil
	s.nDefined = 0
	s.send("(set-option :global-declarations true)\n")
	if !strings.HasPrefix(s.Kind, "cvc5") {
		s.send("(set-option :produce-models true)\n")
	}
	s.send("(set-logic ALL)\n")
	return nil
}

func (s *Solver) Close() {
	if s.alt != nil {
		s.alt.Close()
		s.Stats.Time += s.alt.Stats.Time
		s.alt = nil
	}
	if s.full != nil {
		s.full.Close()
		s.Stats.Time += s.full.Stats.Time
		s.full = nil
	}
	if s.cmd != nil {
		s.in.Close()
		s.cmd.Process.Kill()
		s.cmd.Wait()
		s.cmd = nil
	}
}

func (s *Solver) restart() {
	s.Close()
	if err := s.start(); err != nil {
		panic(engineError{"solver restart: " + err.Error()})
	}
}

func (s *Solver) send(txt string) {
	if s.record {
		s.buf.WriteString(txt)
	}
	if dumpSlow != "" {
		s.transcript.WriteString(txt)
	}
	if _, err := io.WriteString(s.in, txt); err != nil {
		panic(engineError{"solver write: " + err.Error()})
	}
}

// define emits declarations / definitions needed by t.
func (s *Solver) define(t *Term) {
	for s.ufDone < len(s.ts.ufList) {
		s.send(s.ts.ufs[s.ts.ufList[s.ufDone]] + "\n")
		s.ufDone++
	}
	var out, vars []*Term
	t.deps(s.defined, &out, &vars)
	for _, v := range vars {
		s.send(fmt.Sprintf("(declare-const %s %s)\n", v.name, v.sort))
	}
	for _, d := range out {
		s.send(fmt.Sprintf("(define-fun %s () %s %s)\n", d.ref(), d.sort, d.body()))
		s.nDefined++
	}
}

// SetPC makes the solver's assertion stack equal to pc.
func (s *Solver) SetPC(pc []*Term) {
	if s.nDefined > 200000 {
		s.restart()
	}
	n := 0
	for n < len(pc) && n < len(s.stack) && pc[n] == s.stack[n] {
		n++
	}
	if k := len(s.stack) - n; k > 0 {
		s.send(fmt.Sprintf("(pop %d)\n", k))
		s.stack = s.stack[:n]
	}
	for _, t := range pc[n:] {
		s.define(t)
		s.send("(push 1)\n(assert " + t.ref() + ")\n")
		s.stack = append(s.stack, t)
	}
}

func (s *Solver) readUntilMarker() []string {
	var lines []string
	for {
		line, err := s.out.ReadString('\n')
		if err != nil {
			panic(engineError{"solver read: " + err.Error() + " after " + strings.Join(lines, "|")})
		}
		line = strings.TrimSpace(line)
		if strings.Contains(line, "<<done>>") {
			return lines
		}
		if line != "" {
			lines = append(lines, line)
		}
	}
}

// Cross re-decides pc ∧ extra with the alternate back end under the short
// limit (cross-check of assertion verdicts; Unknown = no second opinion).
func (s *Solver) Cross(pc []*Term, extra []*Term) SatResult {
	if s.AltKind == "" {
		return Unknown
	}
	if s.alt == nil {
		a, err := NewSolver(s.AltKind, s.ts, s.timeoutMs)
		if err != nil {
			return Unknown
		}
		s.alt = a
	}
	limit := s.FastMs
	if limit <= 0 {
		limit = 3000
	}
	t0 := time.Now()
	r, _ := s.alt.check1(pc, extra, nil, limit)
	s.Stats.Time += time.Since(t0)
	s.Stats.CrossQueries++
	if r != Unknown {
		s.Stats.CrossDecided++
	}
	return r
}

// Check decides pc ∧ extra. With wantModel, values of vars are returned for sat.
// Check decides pc ∧ extra. Escalation: the primary back end with a short
// time limit, then the alternate back end with the full limit, then the
// primary with the full limit. Only if all three give up is the answer unknown.
func (s *Solver) Check(pc []*Term, extra []*Term, vars []*Term) (SatResult, map[string]uint64) {
	fast := s.FastMs
	if fast <= 0 || fast > s.timeoutMs {
		fast = s.timeoutMs
	}
	// adaptive order: after three queries in a row that the primary back end
	// gave up on within the short limit and the alternate decided, the alternate
	// is asked first until it gives up once
	if s.altStreak >= 3 && s.alt != nil {
		t0 := time.Now()
		r0, m0 := s.alt.check1(pc, extra, vars, s.timeoutMs)
		s.Stats.Queries++
		s.Stats.AltQueries++
		s.Stats.Time += time.Since(t0)
		if r0 != Unknown {
			s.Stats.AltDecided++
			if r0 == Sat {
				s.Stats.Sat++
			} else {
				s.Stats.Unsat++
			}
			return r0, m0
		}
		s.Stats.Queries--
		s.altStreak = 0
	}
	res, model := s.check1(pc, extra, vars, fast)
	if res != Unknown {
		s.altStreak = 0
		return res, model
	}
	account := func(r SatResult) {
		s.Stats.Unknown--
		s.Stats.AltDecided++
		if r == Sat {
			s.Stats.Sat++
		} else {
			s.Stats.Unsat++
		}
	}
	if s.AltKind != "" {
		if s.alt == nil {
			a, err := NewSolver(s.AltKind, s.ts, s.timeoutMs)
			if err == nil {
				s.alt = a
			}
		}
		if s.alt != nil {
			r2, m2 := s.alt.check1(pc, extra, vars, s.timeoutMs)
			s.Stats.AltQueries++
			if r2 != Unknown {
				account(r2)
				s.altStreak++
				return r2, m2
			}
			s.altStreak = 0
		}
	}
	if fast < s.timeoutMs {
		var r3 SatResult
		var m3 map[string]uint64
		if strings.HasPrefix(s.Kind, "z3") {
			r3, m3 = s.check1(pc, extra, vars, s.timeoutMs)
			s.Stats.Unknown-- // counted twice
			if r3 == Unknown {
				s.Stats.Unknown++
			}
			if r3 != Unknown {
				s.Stats.AltDecided++
			}
			return r3, m3
		}
		if s.full == nil {
			f, err := NewSolver(s.Kind, s.ts, s.timeoutMs)
			if err == nil {
				f.noFast = true
				s.full = f
			}
		}
		if s.full != nil {
			r3, m3 = s.full.check1(pc, extra, vars, s.timeoutMs)
			s.Stats.AltQueries++
			if r3 != Unknown {
				account(r3)
				return r3, m3
			}
		}
	}
	return res, model
}

func (s *Solver) check1(pc []*Term, extra []*Term, vars []*Term, limitMs int) (SatResult, map[string]uint64) {
	s.SetPC(pc)
	if strings.HasPrefix(s.Kind, "z3") && limitMs != s.curLimit {
		s.send(fmt.Sprintf("(set-option :timeout %d)\n", limitMs))
		s.curLimit = limitMs
	}
	for _, e := range extra {
		s.define(e)
	}
	for _, v := range vars {
		if !v.IsConst() {
			s.define(v)
		}
	}
	s.record = true
	s.buf.Reset()
	s.send("(push 1)\n")
	for _, e := range extra {
		s.send("(assert " + e.ref() + ")\n")
	}
	start := time.Now()
	if dumpSlow != "" {
		os.WriteFile(fmt.Sprintf("%s/current-%s-%p.smt2", dumpSlow, s.Kind, s), []byte(s.transcript.String()+"(check-sat)\n"), 0o644)
	}
	var lines []string
	crashed := false
	func() {
		defer func() {
			if r := recover(); r != nil {
				if _, ok := r.(engineError); ok {
					crashed = true
					return
				}
				panic(r)
			}
		}()
		s.send("(check-sat)\n(echo \"<<done>>\")\n")
		lines = s.readUntilMarker()
	}()
	if crashed {
		// the back end died (crash / out of memory): restart it, answer unknown
		s.record = false
		s.Stats.Queries++
		s.Stats.Unknown++
		s.Stats.Errors++
		s.Stats.Time += time.Since(start)
		s.restart()
		return Unknown, nil
	}
	el := time.Since(start)
	s.record = false
	s.LastQuery = s.buf.String()
	s.Stats.Queries++
	s.Stats.Time += el
	if dumpSlow != "" && el > 5*time.Second {
		n := atomic.AddInt32(&dumpN, 1)
		if n <= 10 {
			os.WriteFile(fmt.Sprintf("%s/slow-%d.smt2", dumpSlow, n), []byte(fmt.Sprintf("; %v %v\n", el, lines)+s.transcript.String()), 0o644)
		}
	}
	if el > s.Stats.MaxQuery {
		s.Stats.MaxQuery = el
	}
	res := Unknown
	for _, l := range lines {
		if strings.HasPrefix(l, "(error") {
			s.Stats.Errors++
			res = Unknown
			s.send("(pop 1)\n")
			s.Stats.Unknown++
			return res, nil
		}
	}
	for _, l := range lines {
		switch l {
		case "sat":
			res = Sat
		case "unsat":
			res = Unsat
		}
	}
	var model map[string]uint64
	switch res {
	case Sat:
		s.Stats.Sat++
		if len(vars) > 0 {
			model = s.getValues(vars)
		}
	case Unsat:
		s.Stats.Unsat++
	default:
		s.Stats.Unknown++
	}
	s.send("(pop 1)\n")
	return res, model
}

func (s *Solver) getValues(vars []*Term) map[string]uint64 {
	model := map[string]uint64{}
	for i := 0; i < len(vars); i += 50 {
		j := i + 50
		if j > len(vars) {
			j = len(vars)
		}
		var names []string
		for _, v := range vars[i:j] {
			if v.IsConst() {
				continue
			}
			if !s.defined[v.id] {
				s.define(v)
			}
			names = append(names, v.ref())
		}
		if len(names) == 0 {
			continue
		}
		s.send("(get-value (" + strings.Join(names, " ") + "))\n(echo \"<<done>>\")\n")
		txt := strings.Join(s.readUntilMarker(), " ")
		parseValues(txt, model)
	}
	return model
}

// parseValues parses "((name value) (name value))" with values #x.., #b..,
// true/false, (fp #b.. #b.. #b..), (_ bvN w).
func parseValues(txt string, model map[string]uint64) {
	toks := tokenize(txt)
	// walk: find pattern "(" name value ")"
	i := 0
	var parse func() any
	parse = func() any {
		if i >= len(toks) {
			return nil
		}
		t := toks[i]
		i++
		if t == "(" {
			var l []any
			for i < len(toks) && toks[i] != ")" {
				l = append(l, parse())
			}
			i++
			return l
		}
		return t
	}
	root := parse()
	lst, ok := root.([]any)
	if !ok {
		return
	}
	for _, e := range lst {
		p, ok := e.([]any)
		if !ok || len(p) != 2 {
			continue
		}
		name, ok := p[0].(string)
		if !ok {
			continue
		}
		if v, ok := evalValue(p[1]); ok {
			model[name] = v
		}
	}
}

func tokenize(s string) []string {
	var toks []string
	cur := strings.Builder{}
	flush := func() {
		if cur.Len() > 0 {
			toks = append(toks, cur.String())
			cur.Reset()
		}
	}
	for _, r := range s {
		switch r {
		case '(', ')':
			flush()
			toks = append(toks, string(r))
		case ' ', '\t', '\n':
			flush()
		default:
			cur.WriteRune(r)
		}
	}
	flush()
	return toks
}

func evalValue(v any) (uint64, bool) {
	switch v := v.(type) {
	case string:
		switch {
		case v == "true":
			return 1, true
		case v == "false":
			return 0, true
		case strings.HasPrefix(v, "#x"):
			u, err := strconv.ParseUint(v[2:], 16, 64)
			return u, err == nil
		case strings.HasPrefix(v, "#b"):
			u, err := strconv.ParseUint(v[2:], 2, 64)
			return u, err == nil
		}
	case []any:
		if len(v) == 3 {
			if s0, ok := v[0].(string); ok && s0 == "_" {
				if s1, ok := v[1].(string); ok && strings.HasPrefix(s1, "bv") {
					u, err := strconv.ParseUint(s1[2:], 10, 64)
					return u, err == nil
				}
				// (_ +zero 11 53) etc.
				if s1, ok := v[1].(string); ok {
					switch s1 {
					case "+zero":
						return 0, true
					case "-zero":
						return 1 << 63, true
					case "+oo":
						return 0x7ff0000000000000, true
					case "-oo":
						return 0xfff0000000000000, true
					case "NaN":
						return 0x7ff8000000000000, true
					}
				}
			}
		}
		if len(v) == 4 {
			if s0, ok := v[0].(string); ok && s0 == "fp" {
				a, ok1 := evalValue(v[1])
				b, ok2 := evalValue(v[2])
				c, ok3 := evalValue(v[3])
				if ok1 && ok2 && ok3 {
					return a<<63 | b<<52 | c, true
				}
			}
			if s0, ok := v[0].(string); ok && s0 == "_" {
				if s1, ok := v[1].(string); ok {
					switch s1 {
					case "+zero":
						return 0, true
					case "-zero":
						return 1 << 63, true
					case "+oo":
						return 0x7ff0000000000000, true
					case "-oo":
						return 0xfff0000000000000, true
					case "NaN":
						return 0x7ff8000000000000, true
					}
				}
			}
		}
	}
	return 0, false
}
