package interp

// World: the environment state of one path (clock, timers, sync objects,
// file system, logs). Every model here is part of every claim that uses it.

import (
	"fmt"
	"go/types"

	"golang.org/x/tools/go/ssa"
)

type mtimer struct {
	id      int
	when    value // instant (ns) at which it fires: int64 or symv
	fn      value // AfterFunc callback (nil for channel timers)
	ch      *mchan
	stopped bool
	fired   bool
	period  value
	due     int64 // deadline on the concrete logical clock (ns since the start of the path)
}

type mutexState struct {
	owner   *goroutine
	readers int
}

type World struct {
	i            *interpreter
	now          value // current instant in ns since the Unix epoch: int64 or symv(Int64)
	nowCount     int
	timers       []*mtimer
	mutexes      map[*value]*mutexState
	wgs          map[*value]int
	onces        map[*value]bool
	fs           *mfs
	autoFire     bool // fire timers when every goroutine is blocked
	objID        int
	logs         []string
	hashCount    int
	unixCache    map[int]value
	place        map[int]byte
	placeBack    map[byte]value
	servers      []*mserver
	yieldOnRead  bool
	yieldOnLock  bool
	yieldOnFS    bool
	delayAtFS    int // > 0: the goroutine making that many more FS calls is suspended after the last of them
	fireBudget   int
	tick         int64 // concrete logical clock used to order timers
	fireBudgetOn bool
}

func newWorld(i *interpreter) *World {
	return &World{i: i, mutexes: map[*value]*mutexState{}, wgs: map[*value]int{}, onces: map[*value]bool{}, autoFire: true}
}

// ---------------------------------------------------------------------------
// clock: time.Time values are the real 3-field struct {wall, ext, loc} with
// wall = 0, loc = nil and ext = nanoseconds since the Unix epoch (int64 or
// symbolic). The zero Time is ext == 0. Every time.Time method is an
// intrinsic; none is interpreted from source.

const baseNow = int64(1_800_000_000) * 1_000_000_000 // model "now" starts here (2027)

func mkTime(ns value) value {
	return structure{uint64(0), ns, (*value)(nil)}
}

func timeNS(t value) value {
	s, ok := t.(structure)
	if !ok || len(s) != 3 {
		panic(engineError{fmt.Sprintf("timeNS: not a time.Time: %T", t)})
	}
	if w, ok := s[0].(uint64); !ok || w != 0 {
		panic(engineError{"time.Time value not created by the clock model"})
	}
	return s[1]
}

// Now returns a fresh symbolic instant ≥ the previous one.
func (w *World) Now() value {
	// The clock is an arbitrary (symbolic) instant fixed at first use; it moves
	// only when the harness advances it, when a goroutine sleeps or when a
	// timer fires. (Native replays run in milliseconds, so harnesses keep a
	// margin between ages and thresholds — stated as a bound where used.)
	if w.now != nil {
		return w.now
	}
	i := w.i
	ts := i.ts()
	// not a replay input: natively the real clock is used
	v := symv{ts.Var("clock!now", bvSort(64)), types.Int64}
	base := ts.BV(uint64(baseNow), 64)
	i.path.addPC(ts.BVCmp("bvsle", base, v.t))
	i.path.addPC(ts.BVCmp("bvslt", v.t, ts.BVBin("bvadd", base, ts.BV(1<<50, 64))))
	w.now = v
	return v
}

// Advance moves the clock forward by d (≥ 0).
func (w *World) Advance(d value) {
	w.Now()
	w.now = binop(w.i, tokenADD, nil, w.now, d)
	if c, ok := d.(int64); ok {
		w.tick += c
	}
}

// advance moves the clock forward to at least t.
func (w *World) advanceTo(t value) {
	i := w.i
	if w.now == nil {
		w.Now()
	}
	ts := i.ts()
	// both instants are usually offsets from the symbolic start of the clock
	// (which lies in a range where nothing wraps): then the later one is known
	// without asking, and the clock stays "start + constant"
	if nt, ok := w.now.(symv); ok {
		if tt, ok := t.(symv); ok {
			xa, ca, _ := addConst(nt.t)
			xb, cb, _ := addConst(tt.t)
			if xa == xb && xa.op == "var" && xa.name == "clock!now" {
				if int64(ca) < int64(cb) {
					w.now = t
				}
				return
			}
		}
	}
	lt := ts.BVCmp("bvslt", i.term(w.now), i.term(t))
	w.now = mkval(ts.Ite(lt, i.term(t), i.term(w.now)), types.Int64)
}

func (w *World) newTimer(d value, fn value, ch *mchan) *mtimer {
	i := w.i
	if w.now == nil {
		w.Now()
	}
	w.objID++
	when := binop(i, tokenADD, nil, w.now, d)
	t := &mtimer{id: w.objID, when: when, fn: fn, ch: ch, due: w.tick}
	if c, ok := d.(int64); ok {
		t.due = w.tick + c
	}
	w.timers = append(w.timers, t)
	return t
}

// pendingTimers lists timers that have not fired and are not stopped.
func (w *World) pendingTimers() []*mtimer {
	var out []*mtimer
	for _, t := range w.timers {
		if !t.stopped && !t.fired {
			out = append(out, t)
		}
	}
	return out
}

// fire runs one timer now.
func (w *World) fire(t *mtimer) {
	i := w.i
	if t.stopped || t.fired {
		return
	}
	t.fired = true
	w.advanceTo(t.when)
	if t.due > w.tick {
		w.tick = t.due
	}
	if t.ch != nil {
		if len(t.ch.buf) < 1 {
			t.ch.buf = append(t.ch.buf, mkTime(w.now))
		}
	}
	if t.fn != nil {
		// AfterFunc: the callback runs in its own goroutine
		i.spawn(&ssa.Go{}, t.fn, nil)
	}
	if t.period != nil {
		t.fired = false
		t.when = binop(i, tokenADD, nil, t.when, t.period)
		if c, ok := t.period.(int64); ok {
			t.due += c
		}
	}
}

// fireEarliestTimer is called by the scheduler when every goroutine is
// blocked: time passes until the next timer (creation order stands in for
// deadline order — timers in the code under test use fixed positive delays).
func (w *World) fireEarliestTimer() bool {
	if !w.autoFire {
		return false
	}
	// earliest deadline first on the concrete logical clock (fixed delays are
	// concrete; a symbolic delay counts as due at once); creation order breaks ties
	var best *mtimer
	for _, t := range w.timers {
		if !t.stopped && !t.fired && (best == nil || t.due < best.due) {
			best = t
		}
	}
	if best == nil {
		return false
	}
	w.fire(best)
	return true
}
