package interp

// Engine: program loading, per-path interpreter construction, lazy globals and
// package initialisation, glue between the concrete interpreter and the
// symbolic layer.

import (
	"fmt"
	"go/token"
	"go/types"
	"os"
	"sort"
	"strings"
	"sync"

	"golang.org/x/tools/go/packages"
	"golang.org/x/tools/go/ssa"
	"golang.org/x/tools/go/ssa/ssautil"
)

const RepoModule = "github.com/arm-doe/sts"
const VerifrtPath = RepoModule + "/internal/verifrt"

type Engine struct {
	Prog               *ssa.Program
	Pkgs               []*packages.Package
	reflectPackage     *ssa.Package
	errorMethods       methodSet
	wrapErrorMethods   methodSet
	fakeMethods        map[types.Type]methodSet
	rtypeMethods       methodSet
	runtimeErrorString types.Type
	sizes              types.Sizes
	verifT             types.Type
	intr               map[string]externalFn
	intrCache          sync.Map
	Trace              bool
}

// native wraps an opaque host object (compiled regexp, ...).
type native struct{ v any }

func mustDeref(t types.Type) types.Type {
	if p, ok := t.Underlying().(*types.Pointer); ok {
		return p.Elem()
	}
	panic(fmt.Sprintf("mustDeref: %v is not a pointer", t))
}

// Load type-checks the repo packages matching patterns (with the overlay
// harness files) and builds SSA for the whole program.
func Load(repo string, overlay map[string][]byte, patterns []string, env []string) (*Engine, error) {
	cfg := &packages.Config{
		Mode:       packages.LoadAllSyntax,
		Dir:        repo,
		BuildFlags: []string{"-tags=verif"},
		Overlay:    overlay,
		Env:        env,
	}
	pkgs, err := packages.Load(cfg, patterns...)
	if err != nil {
		return nil, err
	}
	var errs []string
	packages.Visit(pkgs, nil, func(p *packages.Package) {
		for _, e := range p.Errors {
			if len(errs) < 20 {
				errs = append(errs, e.Error())
			}
		}
	})
	if len(errs) > 0 {
		return nil, fmt.Errorf("load errors:\n%s", strings.Join(errs, "\n"))
	}
	prog, _ := ssautil.AllPackages(pkgs, ssa.InstantiateGenerics)
	prog.Build()
	e := &Engine{Prog: prog, Pkgs: pkgs, sizes: &types.StdSizes{WordSize: 8, MaxAlign: 8}}
	if rt := prog.ImportedPackage("runtime"); rt != nil {
		e.runtimeErrorString = rt.Type("errorString").Object().Type()
	}
	e.initReflect()
	e.initFakeTypes()
	if vp := prog.ImportedPackage(VerifrtPath); vp != nil {
		e.verifT = vp.Type("T").Object().Type()
	} else {
		return nil, fmt.Errorf("package %s not loaded", VerifrtPath)
	}
	e.intr = map[string]externalFn{}
	for k, v := range externals {
		e.intr[k] = v
	}
	return e, nil
}

func (e *Engine) lookupIntrinsic(fn *ssa.Function) externalFn {
	name := fn.String()
	if x := e.intr[name]; x != nil {
		return x
	}
	// instantiated generics: strip type arguments
	if k := strings.Index(name, "["); k > 0 {
		if x := e.intr[name[:k]]; x != nil {
			return x
		}
	}
	return nil
}

func (e *Engine) intrinsic(fn *ssa.Function) externalFn {
	if fn.Parent() != nil {
		return nil
	}
	if x, ok := e.intrCache.Load(fn); ok {
		if x == nil {
			return nil
		}
		return x.(externalFn)
	}
	x := e.lookupIntrinsic(fn)
	if x == nil {
		e.intrCache.Store(fn, nil)
	} else {
		e.intrCache.Store(fn, x)
	}
	return x
}

// FindFunc returns the package-level function pkgpath.name.
func (e *Engine) FindFunc(pkgpath, name string) *ssa.Function {
	p := e.Prog.ImportedPackage(pkgpath)
	if p == nil {
		return nil
	}
	return p.Func(name)
}

func newInterpreter(e *Engine, p *Path) *interpreter {
	i := &interpreter{
		eng:                e,
		prog:               e.Prog,
		globals:            make(map[*ssa.Global]*value),
		inited:             make(map[*ssa.Package]bool),
		sizes:              e.sizes,
		runtimeErrorString: e.runtimeErrorString,
		errorMethods:       e.errorMethods,
		rtypeMethods:       e.rtypeMethods,
		goroutines:         1,
		path:               p,
	}
	if e.Trace {
		i.mode |= EnableTracing
	}
	i.world = newWorld(i)
	i.sched = newScheduler(i)
	return i
}

// packages whose init function is never run; reading one of their globals is
// unsupported unless the global is special-cased in globalSpecial.
var noInitPkgs = map[string]bool{
	"os": true, "runtime": true, "syscall": true, "time": true, "fmt": true, "reflect": true,
	"sync": true, "sync/atomic": true, "net": true, "net/http": true, "crypto/md5": true,
	"encoding/json": true, "regexp": true, "regexp/syntax": true, "internal/poll": true,
	"internal/godebug": true, "log": true, "bufio": true, "compress/gzip": true,
	"internal/cpu": true, "internal/bytealg": true, "unicode": true, "math/rand": true,
	"crypto/tls": true, "internal/syscall/unix": true, "internal/testlog": true,
}

func (i *interpreter) global(g *ssa.Global) *value {
	if r, ok := i.globals[g]; ok {
		return r
	}
	pkg := g.Pkg
	if pkg != nil && !i.inited[pkg] {
		i.ensureInit(pkg)
		if r, ok := i.globals[g]; ok {
			return r
		}
	}
	cell := zero(mustDeref(g.Type()))
	i.globals[g] = &cell
	if pkg != nil && noInitPkgs[pkg.Pkg.Path()] {
		if v, ok := i.globalSpecial(g); ok {
			cell = v
		} else if !strings.HasPrefix(g.Name(), "init$") {
			i.path.notes = append(i.path.notes, "zero-global:"+g.String())
		}
	}
	return &cell
}

// ensureInit runs the synthetic init function of pkg (once per path); calls
// from it to other packages' init functions are lazy as well.
func (i *interpreter) ensureInit(pkg *ssa.Package) {
	if i.inited[pkg] {
		return
	}
	i.inited[pkg] = true
	if noInitPkgs[pkg.Pkg.Path()] {
		return
	}
	fn := pkg.Func("init")
	if fn == nil || fn.Blocks == nil {
		return
	}
	saved := i.curFrame
	i.curFrame = nil
	call(i, nil, token.NoPos, fn, nil)
	i.curFrame = saved
}

// checkCallable rejects interpreting code of packages that must be modelled.
func (i *interpreter) checkCallable(fn *ssa.Function) {
	if fn.Pkg == nil {
		return
	}
	path := fn.Pkg.Pkg.Path()
	if fn.Name() == "init" && fn.Signature.Recv() == nil && fn.Parent() == nil {
		return
	}
	if unmodelled[path] {
		panic(engineError{"call into unmodelled package function " + fn.String() + " from " + i.where()})
	}
}

// packages that are never interpreted from source: a call that reaches one of
// their functions without an intrinsic aborts the path as unsupported.
var unmodelled = map[string]bool{
	"os": true, "syscall": true, "net": true, "net/http": true, "crypto/md5": true, "encoding/json": true,
	"regexp": true, "compress/gzip": true, "internal/poll": true, "os/exec": true, "crypto/tls": true,
	"runtime": true, "time": true, "fmt": true, "reflect": true, "sync": true, "sync/atomic": true,
	"bufio": true, "log": true, "io/ioutil": true, "net/url": true, "encoding/hex": true,
	"gopkg.in/yaml.v2": true, "math/rand": true, "os/signal": true, "os/user": true,
}

func (i *interpreter) step() {
	p := i.path
	p.steps++
	if p.steps > p.w.ex.Limits.MaxSteps {
		panic(pathAbort{fmt.Sprintf("limit: %d interpreter steps", p.steps)})
	}
}

// cond evaluates the condition of an If, forking when it is symbolic.
func (fr *frame) cond(instr *ssa.If) bool {
	switch c := fr.get(instr.Cond).(type) {
	case bool:
		return c
	case symv:
		if fr.symCount == nil {
			fr.symCount = map[ssa.Instruction]int{}
		}
		fr.symCount[instr]++
		if fr.symCount[instr] > fr.i.path.w.ex.Limits.Unwind {
			panic(pathAbort{fmt.Sprintf("unwind: more than %d symbolic iterations at %s in %s", fr.i.path.w.ex.Limits.Unwind, fr.i.prog.Fset.Position(instr.Pos()), fr.fn)})
		}
		return fr.i.decideBool(fr.site(instr), c.t)
	default:
		panic(engineError{fmt.Sprintf("If on %T", c)})
	}
}

func (fr *frame) site(instr ssa.Instruction) string {
	pos := fr.i.prog.Fset.Position(instr.Pos())
	if !pos.IsValid() {
		// the If has no position: use the condition's
		if ifi, ok := instr.(*ssa.If); ok {
			pos = fr.i.prog.Fset.Position(ifi.Cond.Pos())
		}
	}
	f := pos.Filename
	if k := strings.LastIndex(f, "/"); k >= 0 {
		f = f[k+1:]
	}
	return fmt.Sprintf("%s:%d", f, pos.Line)
}

// index resolves an index into [0,n), forking over feasible positions when it
// is symbolic; out of range raises the Go run-time panic.
func (i *interpreter) index(site string, idx value, n int) int {
	x, ok := i.concretizeInt(site, idx, 0, int64(n)-1)
	if !ok {
		panic(targetPanic{iface{i.eng.runtimeErrorString, fmt.Sprintf("index out of range [%s] with length %d", toString(idx), n)}})
	}
	return int(x)
}

// concreteIdx concretizes an optional slice bound.
func (i *interpreter) concreteIdx(v value) value {
	if s, ok := v.(symv); ok {
		x, ok := i.concretizeInt("slicebound", s, 0, 64)
		if !ok {
			panic(engineError{"symbolic slice bound outside [0,64]"})
		}
		return int(x)
	}
	return v
}

// mapKey makes a map key concrete (symbolic keys are not supported, symbolic
// strings with all-concrete bytes collapse to Go strings).
func (i *interpreter) mapKey(k value) value {
	switch k := k.(type) {
	case symv:
		panic(engineError{"symbolic map key"})
	case symstr:
		if s, ok := k.concrete(); ok {
			return s
		}
		panic(engineError{"symbolic string used as map key"})
	}
	return k
}

// mapKeyIn resolves a string key that is, or may be equal to, a symbolic-byte
// string: the key is compared (a solver-decided fork each) with every key of m
// of the same length that could be equal to it; a symbolic key equal to none
// of them is stored under its surrogate (every symbolic byte replaced by its
// per-path placeholder byte), so that the same symbolic string finds its entry
// again and range can map the key back (see unsurrogate).
func (i *interpreter) mapKeyIn(m value, k value) value {
	mm, isMap := m.(map[value]value)
	var ss symstr
	switch x := k.(type) {
	case symstr:
		if s, ok := x.concrete(); ok {
			k = s
		} else {
			ss = x
		}
	case string:
	default:
		return i.mapKey(k)
	}
	if !isMap {
		if ss.b != nil {
			panic(engineError{"symbolic string key into a non-builtin map"})
		}
		return k
	}
	if ss.b == nil {
		// concrete key: only keys that carry placeholders can be "equal in value"
		ks := k.(string)
		if len(i.world.placeBack) == 0 {
			return k
		}
		var cands []string
		for ck := range mm {
			if s, ok := ck.(string); ok && len(s) == len(ks) && s != ks && i.hasPlaceholder(s) {
				cands = append(cands, s)
			}
		}
		sort.Strings(cands)
		for _, ck := range cands {
			if i.truth("mapkey", i.symstrBinop(token.EQL, i.unsurrogate(ck), ks)) {
				return ck
			}
		}
		return k
	}
	own := i.surrogateAll(ss)
	if _, ok := mm[own]; ok {
		return own
	}
	var keys []string
	for ck := range mm {
		if s, ok := ck.(string); ok && len(s) == len(ss.b) {
			keys = append(keys, s)
		}
	}
	sort.Strings(keys)
	for _, ck := range keys {
		if i.truth("mapkey", i.symstrBinop(token.EQL, ss, i.unsurrogate(ck))) {
			return ck
		}
	}
	return own
}

func (i *interpreter) hasPlaceholder(s string) bool {
	for k := 0; k < len(s); k++ {
		if s[k] >= 0x80 {
			if _, ok := i.world.placeBack[s[k]]; ok {
				return true
			}
		}
	}
	return false
}

// surrogateAll replaces every symbolic byte by its placeholder (no decisions).
func (i *interpreter) surrogateAll(ss symstr) string {
	out := make([]byte, len(ss.b))
	for k, b := range ss.b {
		switch bv := b.(type) {
		case uint8:
			out[k] = bv
		case symv:
			out[k] = i.world.placeholder(bv.t, bv)
		default:
			panic(engineError{fmt.Sprintf("surrogateAll: %T", b)})
		}
	}
	return string(out)
}

func (i *interpreter) binopSym(op token.Token, t types.Type, x, y value) (value, bool) {
	_, sx := x.(symv)
	_, sy := y.(symv)
	if sx || sy {
		return i.symBinop(op, x, y), true
	}
	_, ssx := x.(symstr)
	_, ssy := y.(symstr)
	if ssx || ssy {
		return i.symstrBinop(op, x, y), true
	}
	return nil, false
}

func (i *interpreter) convSym(t_dst, t_src types.Type, x value) (value, bool) {
	switch x := x.(type) {
	case symv:
		if b, ok := t_dst.Underlying().(*types.Basic); ok {
			if b.Kind() == types.String {
				panic(engineError{"conversion of symbolic integer to string"})
			}
			return i.symConv(b, x), true
		}
		panic(engineError{fmt.Sprintf("symConv to %s", t_dst)})
	case symstr:
		switch d := t_dst.Underlying().(type) {
		case *types.Basic:
			if d.Kind() == types.String {
				return x, true
			}
		case *types.Slice:
			if d.Elem().Underlying().(*types.Basic).Kind() == types.Byte {
				out := make([]value, len(x.b))
				copy(out, x.b)
				return out, true
			}
		}
		panic(engineError{fmt.Sprintf("symstr conversion to %s", t_dst)})
	case []value:
		// []byte -> string with symbolic bytes
		if d, ok := t_dst.Underlying().(*types.Basic); ok && d.Kind() == types.String {
			if sl, ok := t_src.Underlying().(*types.Slice); ok {
				if eb, ok := sl.Elem().Underlying().(*types.Basic); ok && eb.Kind() == types.Byte {
					anySym := false
					for _, b := range x {
						if isSym(b) {
							anySym = true
							break
						}
					}
					if anySym {
						out := make([]value, len(x))
						copy(out, x)
						return symstr{out}, true
					}
				}
			}
		}
	}
	return nil, false
}

// equalsV is equals() lifted to symbolic scalars / strings: the result is a
// bool or a symbolic bool.
func (i *interpreter) equalsV(t types.Type, x, y value) value {
	switch xv := x.(type) {
	case symv:
		return i.symBinop(token.EQL, x, y)
	case symstr:
		return i.symstrBinop(token.EQL, x, y)
	case structure:
		yv := y.(structure)
		var acc value = true
		st := t.Underlying().(*types.Struct)
		for k := range xv {
			if st.Field(k).Name() == "_" {
				continue
			}
			acc = i.andValues(acc, i.equalsV(st.Field(k).Type(), xv[k], yv[k]))
			if b, ok := acc.(bool); ok && !b {
				return false
			}
		}
		return acc
	case array:
		yv := y.(array)
		var acc value = true
		et := t.Underlying().(*types.Array).Elem()
		for k := range xv {
			acc = i.andValues(acc, i.equalsV(et, xv[k], yv[k]))
		}
		return acc
	case iface:
		yv := y.(iface)
		if !sameType(xv.t, yv.t) {
			return false
		}
		if xv.t == nil {
			return true
		}
		return i.equalsV(xv.t, xv.v, yv.v)
	}
	if isSym(y) {
		return i.symBinop(token.EQL, x, y)
	}
	if _, ok := y.(symstr); ok {
		return i.symstrBinop(token.EQL, x, y)
	}
	return equals(t, x, y)
}

// iteValue builds if c then a else b for scalars without forking.
func (i *interpreter) iteValue(c, a, b value) value {
	if cb, ok := c.(bool); ok {
		if cb {
			return a
		}
		return b
	}
	k := valueKind(a)
	return mkval(i.ts().Ite(i.boolTerm(c), i.term(a), i.term(b)), k)
}

// ---------------------------------------------------------------------------
// deterministic map iteration (sorted by key)

type sliceIter struct {
	items []tuple
	pos   int
}

func (it *sliceIter) next() tuple {
	if it.pos >= len(it.items) {
		return []value{false, nil, nil}
	}
	t := it.items[it.pos]
	it.pos++
	return t
}

func keyLess(a, b value) bool {
	switch x := a.(type) {
	case string:
		if y, ok := b.(string); ok {
			return x < y
		}
	case *value, *mchan, *native:
		return false // pointer keys: insertion order is not tracked; keep stable order below
	}
	ka, oka := concreteKind(a)
	kb, okb := concreteKind(b)
	if oka && okb && ka == kb {
		if _, signed := kindWidthSafe(ka); signed {
			return asInt64(a) < asInt64(b)
		}
		if ka == types.Bool {
			return !a.(bool) && b.(bool)
		}
		if ka == types.Float64 {
			return a.(float64) < b.(float64)
		}
		return uint64(asInt64(a)) < uint64(asInt64(b))
	}
	return toString(a) < toString(b)
}

func kindWidthSafe(k types.BasicKind) (int, bool) {
	if !isIntKind(k) {
		return 0, false
	}
	return kindWidth(k)
}

func newSortedMapIter(i *interpreter, m map[value]value) iter {
	it := &sliceIter{}
	for k, v := range m {
		it.items = append(it.items, tuple{true, k, v})
	}
	sort.SliceStable(it.items, func(a, b int) bool { return keyLess(it.items[a][1], it.items[b][1]) })
	if i != nil && len(i.world.placeBack) > 0 {
		for _, t := range it.items {
			if s, ok := t[1].(string); ok {
				t[1] = i.unsurrogate(s)
			}
		}
	}
	for _, t := range it.items {
		switch t[1].(type) {
		case *value:
			if len(it.items) > 1 {
				panic(engineError{"range over a map with pointer keys (iteration order cannot be made deterministic)"})
			}
		}
	}
	return it
}

func newSortedHashmapIter(m *hashmap) iter {
	it := &sliceIter{}
	if m != nil {
		for _, e := range m.table {
			for ; e != nil; e = e.next {
				it.items = append(it.items, tuple{true, e.key, e.value})
			}
		}
	}
	sort.SliceStable(it.items, func(a, b int) bool { return toString(it.items[a][1]) < toString(it.items[b][1]) })
	return it
}

func (i *interpreter) endOfHarness() {}

var _ = os.Stderr
