// Command verif runs the solver-based checks of /verif against /repo.
//
//	verif check <id> [--tier quick|thorough]   decide one property, write evidence, replay counterexamples
//	verif replay <replay.json>                 native re-run of one counterexample
//	verif list                                 obligations, harnesses, bounds
package main

import (
	"encoding/json"
	"flag"
	"fmt"
	"os"
	"os/exec"
	"path/filepath"
	"runtime"
	"sort"
	"strings"
	"time"

	"symgo/interp"
)

var (
	verifDir = envOr("VERIF_DIR", "/verif")
	repoDir  = envOr("VERIF_REPO", "/repo")
	outDir   = envOr("VERIF_OUT", envOr("VERIF_DIR", "/verif"))
	goRoot   = "/opt/veriftools/go1.26.8"
)

func envOr(k, d string) string {
	if v := os.Getenv(k); v != "" {
		return v
	}
	return d
}

type HarnessConf struct {
	Obligation string         `json:"obligation"`
	Pkg        string         `json:"pkg"`  // directory below the repo root ("stage", "." ...)
	Func       string         `json:"func"` // harness function
	What       string         `json:"what"` // one line: what is asserted
	Quick      map[string]int `json:"quick"`
	Thorough   map[string]int `json:"thorough"`
	MustReach  []string       `json:"must_reach"`
	QuickOnly  bool           `json:"quick_only,omitempty"`
	ThoroughOnly bool         `json:"thorough_only,omitempty"`
	MaxPaths   int            `json:"max_paths,omitempty"`
	Unwind     int            `json:"unwind,omitempty"`
	Solver     string         `json:"solver,omitempty"`
	Replay     string         `json:"replay,omitempty"` // "" = native, "slow" = native in real time, "engine" = engine-only (schedule / lock audits)
}

type PropConf struct {
	Property    string        `json:"property"`
	Harnesses   []HarnessConf `json:"harnesses"`
	Assumptions []string      `json:"assumptions"`
	Models      []string      `json:"models"`
	Outside     []string      `json:"outside"`
}

type KnownFinding struct {
	ID         string `json:"id"`
	Property   string `json:"property"`
	Obligation string `json:"obligation"`
	Trigger    string `json:"trigger"`
	What       string `json:"what"`
	Input      any    `json:"input"`
	Status     string `json:"status"` // known | fixed
	Commit     string `json:"commit,omitempty"`
	Line       string `json:"line,omitempty"`
}

type KFFile struct {
	Findings []KnownFinding `json:"findings"`
}

func main() {
	os.Setenv("PATH", goRoot+"/bin:"+os.Getenv("PATH"))
	os.Setenv("GOTOOLCHAIN", "local")
	os.Setenv("GOFLAGS", "-mod=mod")
	os.Setenv("GOPROXY", "off")
	if len(os.Args) < 2 {
		usage()
	}
	switch os.Args[1] {
	case "check":
		os.Exit(cmdCheck(os.Args[2:]))
	case "replay":
		os.Exit(cmdReplay(os.Args[2:]))
	case "list":
		os.Exit(cmdList())
	default:
		usage()
	}
}

func usage() {
	fmt.Fprintln(os.Stderr, "usage: verif check <id> [--tier quick|thorough] | replay <file> | list")
	os.Exit(2)
}

func goEnv() []string {
	env := []string{}
	for _, e := range os.Environ() {
		if strings.HasPrefix(e, "PATH=") || strings.HasPrefix(e, "GOFLAGS=") || strings.HasPrefix(e, "GOTOOLCHAIN=") ||
			strings.HasPrefix(e, "GOPROXY=") || strings.HasPrefix(e, "GOSUMDB=") || strings.HasPrefix(e, "GOROOT=") {
			continue
		}
		env = append(env, e)
	}
	env = append(env, "PATH="+goRoot+"/bin:"+os.Getenv("PATH"), "GOTOOLCHAIN=local", "GOFLAGS=-mod=mod", "GOPROXY=off", "GONOSUMDB=*", "GONOSUMCHECK=1", "GOFLAGS=-mod=mod")
	return env
}

// overlayFiles maps virtual repo paths to harness files under /verif/harness.
func overlayFiles() (map[string]string, error) {
	out := map[string]string{}
	root := filepath.Join(verifDir, "harness")
	err := filepath.Walk(root, func(p string, info os.FileInfo, err error) error {
		if err != nil {
			return err
		}
		if info.IsDir() || !strings.HasSuffix(p, ".go") {
			return nil
		}
		rel, _ := filepath.Rel(root, p)
		out[filepath.Join(repoDir, rel)] = p
		return nil
	})
	return out, err
}

func loadProp(id string) (*PropConf, error) {
	b, err := os.ReadFile(filepath.Join(verifDir, "checks", id+".json"))
	if err != nil {
		return nil, err
	}
	var pc PropConf
	if err := json.Unmarshal(b, &pc); err != nil {
		return nil, fmt.Errorf("checks/%s.json: %v", id, err)
	}
	return &pc, nil
}

func loadKF() (*KFFile, error) {
	b, err := os.ReadFile(filepath.Join(verifDir, "known_findings.json"))
	if err != nil {
		if os.IsNotExist(err) {
			return &KFFile{}, nil
		}
		return nil, err
	}
	var kf KFFile
	if err := json.Unmarshal(b, &kf); err != nil {
		return nil, err
	}
	return &kf, nil
}

type harnessResult struct {
	Conf       HarnessConf
	Bounds     map[string]int
	Paths      int
	Status     map[string]int
	Asserts    int
	Steps      int64
	Reached    map[string]int
	Incon      []string
	Violations []*interp.Violation
	KFSeen     map[string]*interp.Violation
	Stats      interp.SolverStats
	Funcs      map[string]int
	Samples    []string
	Queries    []string
	Wall       float64
	MaxDepth   int
	Notes      map[string]int
}

func cmdCheck(args []string) int {
	fs := flag.NewFlagSet("check", flag.ExitOnError)
	tier := fs.String("tier", envOr("VERIF_TIER", "quick"), "quick|thorough")
	only := fs.String("only", "", "run only the harness with this function name")
	workers := fs.Int("workers", runtime.NumCPU(), "parallel workers")
	solver := fs.String("solver", "z3", "z3|z3-new|cvc5")
	trace := fs.Bool("trace", false, "trace interpreted instructions")
	noReplay := fs.Bool("no-replay", false, "do not replay counterexamples natively")
	verbose := fs.Bool("v", false, "verbose")
	cross := fs.Bool("cross", false, "re-decide every assertion query with the alternate solver (default in the thorough tier)")
	noCross := fs.Bool("no-cross", false, "thorough tier without the solver cross-check")
	qtimeout := fs.Int("qtimeout", 0, "per-query solver timeout in ms (default 60000 quick / 300000 thorough)")
	if len(args) < 1 {
		usage()
	}
	id := args[0]
	fs.Parse(args[1:])
	solverSet := false
	fs.Visit(func(f *flag.Flag) {
		if f.Name == "solver" {
			solverSet = true
		}
	})
	start := time.Now()
	seed := 0
	fmt.Sscanf(os.Getenv("VERIF_SEED"), "%d", &seed)

	pc, err := loadProp(id)
	if err != nil {
		fmt.Println("INCONCLUSIVE:", err)
		return 2
	}
	kf, err := loadKF()
	if err != nil {
		fmt.Println("INCONCLUSIVE: known_findings.json:", err)
		return 2
	}
	known := map[string]bool{}
	kfByID := map[string]KnownFinding{}
	for _, f := range kf.Findings {
		kfByID[f.ID] = f
		if f.Status == "known" {
			known[f.ID] = true
		}
	}

	ov, err := overlayFiles()
	if err != nil {
		fmt.Println("INCONCLUSIVE:", err)
		return 2
	}
	overlay := map[string][]byte{}
	for v, real := range ov {
		b, err := os.ReadFile(real)
		if err != nil {
			fmt.Println("INCONCLUSIVE:", err)
			return 2
		}
		overlay[v] = b
	}
	pkgset := map[string]bool{"./internal/verifrt": true}
	for _, h := range pc.Harnesses {
		pkgset["./"+h.Pkg] = true
	}
	var patterns []string
	for p := range pkgset {
		patterns = append(patterns, p)
	}
	sort.Strings(patterns)
	t0 := time.Now()
	eng, err := interp.Load(repoDir, overlay, patterns, goEnv())
	if err != nil {
		fmt.Println("INCONCLUSIVE: cannot load / type-check /repo with the harness overlay (harness does not compile against the current tree?):")
		fmt.Println(err)
		writeEvidence(id, *tier, seed, nil, pc, time.Since(start).Seconds(), 0, []string{"load: " + err.Error()}, nil)
		return 2
	}
	eng.Trace = *trace
	loadSecs := time.Since(t0).Seconds()
	if *verbose {
		fmt.Printf("loaded SSA in %.1fs\n", loadSecs)
	}

	var results []*harnessResult
	exit := 0
	var incon []string
	var allViol []*interp.Violation
	kfSeen := map[string]*interp.Violation{}
	partialRun = *only != ""
	for _, h := range pc.Harnesses {
		if *only != "" && h.Func != *only {
			continue
		}
		if (*tier == "quick" && h.ThoroughOnly) || (*tier == "thorough" && h.QuickOnly) {
			continue
		}
		pkgpath := interp.RepoModule
		if h.Pkg != "." {
			pkgpath += "/" + h.Pkg
		}
		fn := eng.FindFunc(pkgpath, h.Func)
		if fn == nil {
			incon = append(incon, "harness function not found: "+pkgpath+"."+h.Func)
			continue
		}
		params := h.Quick
		if *tier == "thorough" && h.Thorough != nil {
			params = map[string]int{}
			for k, v := range h.Quick {
				params[k] = v
			}
			for k, v := range h.Thorough {
				params[k] = v
			}
		}
		maxPaths := 400000
		if h.MaxPaths > 0 {
			maxPaths = h.MaxPaths
		}
		unwind := 64
		if h.Unwind > 0 {
			unwind = h.Unwind
		}
		budget := 20 * time.Minute
		timeout := 60000
		if *tier == "thorough" {
			budget = 90 * time.Minute
			timeout = 300000
		}
		if *qtimeout > 0 {
			timeout = *qtimeout
		}
		hsolver := *solver
		if h.Solver != "" && !solverSet {
			hsolver = h.Solver
		}
		ex := &interp.Explorer{
			Eng: eng, Fn: fn, Name: h.Func, Params: params, Known: known,
			Limits: interp.Limits{MaxPaths: maxPaths, MaxDepth: 4000, MaxSteps: 20_000_000, Unwind: unwind, MaxViolPerLb: 3,
				Deadline: time.Now().Add(budget), CrossCheck: *cross || (*tier == "thorough" && !*noCross)},
			Workers: *workers, Solver: hsolver, Timeout: timeout, FastTimeout: 3000,
		}
		hs := time.Now()
		ex.Run()
		hr := &harnessResult{Conf: h, Bounds: ex.Bounds, Paths: ex.Paths, Status: ex.StatusCnt, Asserts: ex.Asserts, Steps: ex.Steps,
			Reached: ex.Reached, Incon: ex.Incon, Violations: ex.Viol, KFSeen: ex.KFSeen, Stats: ex.Stats, Funcs: ex.Funcs,
			Samples: ex.Samples, Queries: ex.Queries, Wall: time.Since(hs).Seconds(), MaxDepth: ex.MaxDepthSeen, Notes: ex.Notes}
		for _, l := range h.MustReach {
			if ex.Reached[l] == 0 {
				hr.Incon = append(hr.Incon, "vacuity: label "+l+" not reached by any feasible path")
			}
		}
		if ex.Asserts == 0 && len(ex.Viol) == 0 {
			hr.Incon = append(hr.Incon, "vacuity: no assertion was evaluated")
		}
		results = append(results, hr)
		for _, s := range hr.Incon {
			incon = append(incon, h.Func+": "+s)
		}
		allViol = append(allViol, ex.Viol...)
		for k, v := range ex.KFSeen {
			if _, ok := kfSeen[k]; !ok {
				kfSeen[k] = v
			}
		}
		fmt.Printf("%-34s %-9s paths=%d asserts=%d queries=%d (sat %d, unsat %d, unknown %d) solver=%.1fs wall=%.1fs viol=%d%s\n",
			h.Func, h.Obligation, ex.Paths, ex.Asserts, ex.Stats.Queries, ex.Stats.Sat, ex.Stats.Unsat, ex.Stats.Unknown,
			ex.Stats.Time.Seconds(), hr.Wall, len(ex.Viol), inconNote(hr.Incon))
		if *verbose {
			fmt.Println("   status:", ex.StatusCnt, "reached:", ex.Reached, "notes:", ex.Notes)
		}
	}

	// known findings observed
	var kfIDs []string
	for k := range kfSeen {
		kfIDs = append(kfIDs, k)
	}
	sort.Strings(kfIDs)
	for _, k := range kfIDs {
		f := kfByID[k]
		fmt.Printf("KNOWN-FINDING: property=%s %s %s\n", id, k, f.What)
	}
	for _, f := range kf.Findings {
		if f.Property == id && f.Status == "known" && *only == "" {
			if _, ok := kfSeen[f.ID]; !ok {
				ran := false
				for _, r := range results {
					if r.Conf.Obligation == f.Obligation {
						ran = true
					}
				}
				if ran {
					fmt.Printf("KNOWN-FINDING-GONE: property=%s %s no longer reproduced by the solver\n", id, f.ID)
				}
			}
		}
	}

	// replay violations natively
	nviol := 0
	var replayNotes []string
	if len(allViol) > 0 {
		os.MkdirAll(filepath.Join(outDir, "replays", id), 0o755)
		rp := newReplayer(ov)
		defer rp.close()
		for n, v := range allViol {
			var hconf HarnessConf
			for _, h := range pc.Harnesses {
				if h.Func == v.Harness {
					hconf = h
				}
			}
			path := filepath.Join(outDir, "replays", id, fmt.Sprintf("%s-%d.json", v.Harness, n))
			writeReplay(path, id, hconf, v)
			if *noReplay {
				fmt.Printf("COUNTEREXAMPLE (not replayed) property=%s harness=%s label=%q replay=%s %s\n", id, v.Harness, v.Label, path, v.Msg)
				incon = append(incon, "counterexample not replayed")
				continue
			}
			var verdict string
			if hconf.Replay == "engine" {
				// schedule- / lock-discipline obligations: the failing state
				// depends on an interleaving that a native run cannot be forced
				// into; the counterexample is the engine's execution of the
				// real code's SSA under its deterministic scheduler
				verdict = "REPRODUCED (engine execution of the real code under the recorded schedule; not replayable natively) " + v.Label
			} else if hconf.Replay == "slow" {
				// the scenario consists of timers firing (10 s apart): a replay
				// in milliseconds would "reproduce" any such failure trivially
				verdict = rp.run1(hconf.Pkg, path, true)
				if strings.HasPrefix(verdict, "REPRODUCED") {
					verdict += " (in real time: timers waited for)"
				}
			} else {
				verdict = rp.run(hconf.Pkg, path)
			}
			replayNotes = append(replayNotes, fmt.Sprintf("%s %s: %s", v.Harness, v.Label, verdict))
			if strings.HasPrefix(verdict, "REPRODUCED") {
				nviol++
				fmt.Printf("VIOLATION property=%s replay=%s\n", id, path)
				fmt.Printf("  harness=%s obligation=%s label=%q native=%q %s\n", v.Harness, hconf.Obligation, v.Label, verdict, v.Msg)
				fmt.Printf("  inputs: %s\n", inputsString(v))
			} else {
				fmt.Printf("ENGINE-MISMATCH property=%s harness=%s label=%q replay=%s native=%q %s\n", id, v.Harness, v.Label, path, verdict, v.Msg)
				fmt.Printf("  inputs: %s\n", inputsString(v))
				incon = append(incon, "engine mismatch: counterexample for "+v.Label+" did not reproduce natively: "+verdict)
			}
		}
	}

	wall := time.Since(start).Seconds()
	writeEvidence(id, *tier, seed, results, pc, wall, nviol, incon, replayNotes)
	switch {
	case nviol > 0:
		exit = 1
	case len(incon) > 0:
		exit = 2
		for _, s := range incon {
			fmt.Println("INCONCLUSIVE:", s)
		}
	}
	if exit == 0 {
		fmt.Printf("OK property=%s tier=%s harnesses=%d wall=%.1fs (load %.1fs)\n", id, *tier, len(results), wall, loadSecs)
	}
	return exit
}

func inconNote(s []string) string {
	if len(s) == 0 {
		return ""
	}
	x := s[0]
	if len(x) > 300 {
		x = x[:300]
	}
	return " INCONCLUSIVE: " + x
}

func inputsString(v *interp.Violation) string {
	var parts []string
	for _, in := range v.Inputs {
		parts = append(parts, fmt.Sprintf("%s=%d", in.Tag, in.Value))
	}
	return strings.Join(parts, " ")
}

func writeReplay(path, id string, h HarnessConf, v *interp.Violation) {
	type rin struct {
		Kind  string `json:"kind"`
		Tag   string `json:"tag"`
		Var   string `json:"var,omitempty"`
		Value int64  `json:"value"`
	}
	var ins []rin
	for _, in := range v.Inputs {
		ins = append(ins, rin{in.Kind, in.Tag, in.Var, in.Value})
	}
	r := map[string]any{
		"property": id, "package": h.Pkg, "harness": v.Harness, "obligation": h.Obligation, "label": v.Label, "kind": v.Kind,
		"msg": v.Msg, "known_finding": v.KF, "inputs": ins, "decisions": v.Decisions, "trace": v.Trace, "images": v.Images,
	}
	b, _ := json.MarshalIndent(r, "", " ")
	os.WriteFile(path, b, 0o644)
}

// ---------------------------------------------------------------------------
// native replay

type replayer struct {
	tmp     string
	ovJSON  string
	bins    map[string]string
	overlay map[string]string
}

func newReplayer(ov map[string]string) *replayer {
	tmp, _ := os.MkdirTemp("", "verif-replay-")
	r := &replayer{tmp: tmp, bins: map[string]string{}, overlay: ov}
	m := map[string]any{"Replace": ov}
	b, _ := json.Marshal(m)
	r.ovJSON = filepath.Join(tmp, "overlay.json")
	os.WriteFile(r.ovJSON, b, 0o644)
	return r
}

func (r *replayer) close() { os.RemoveAll(r.tmp) }

func (r *replayer) build(pkg string) (string, string) {
	if b, ok := r.bins[pkg]; ok {
		return b, ""
	}
	bin := filepath.Join(r.tmp, strings.ReplaceAll(pkg, "/", "_")+".test")
	cmd := exec.Command(goRoot+"/bin/go", "test", "-c", "-tags", "verif", "-vet=off", "-overlay", r.ovJSON, "-o", bin, "./"+pkg)
	cmd.Dir = repoDir
	cmd.Env = append(goEnv(), "GOCACHE="+filepath.Join(r.tmp, "gocache-unused-if-default"))
	cmd.Env = goEnv()
	out, err := cmd.CombinedOutput()
	if err != nil {
		return "", "native build failed: " + err.Error() + ": " + string(out)
	}
	r.bins[pkg] = bin
	return bin, ""
}

// run replays natively. Timer-driven behaviour (the stage re-examines a held
// file every 10 s) does not show in a replay that lasts milliseconds: a replay
// that does not reproduce is repeated once in real time (the harness then
// waits 11 s wherever the engine fired the pending timers).
func (r *replayer) run(pkg, replay string) string {
	v := r.run1(pkg, replay, false)
	if strings.HasPrefix(v, "NOT-REPRODUCED") {
		if v2 := r.run1(pkg, replay, true); strings.HasPrefix(v2, "REPRODUCED") {
			return v2 + " (in real time: timers waited for)"
		}
	}
	return v
}

func (r *replayer) run1(pkg, replay string, slow bool) string {
	bin, msg := r.build(pkg)
	if msg != "" {
		return "REPLAY-ERROR " + msg
	}
	cmd := exec.Command(bin, "-test.run", "^TestVerifReplay$", "-test.count=1", "-test.timeout=300s")
	cmd.Dir = filepath.Join(repoDir, pkg)
	cmd.Env = append(os.Environ(), "VERIF_REPLAY="+replay)
	if slow {
		cmd.Env = append(cmd.Env, "VERIF_REPLAY_SLOW=1")
	}
	out, _ := cmd.CombinedOutput()
	for _, l := range strings.Split(string(out), "\n") {
		if strings.HasPrefix(l, "VERIF-REPLAY-VERDICT: ") {
			return strings.TrimPrefix(l, "VERIF-REPLAY-VERDICT: ")
		}
	}
	s := string(out)
	if len(s) > 600 {
		s = s[len(s)-600:]
	}
	return "REPLAY-ERROR no verdict: " + s
}

func cmdReplay(args []string) int {
	if len(args) < 1 {
		usage()
	}
	b, err := os.ReadFile(args[0])
	if err != nil {
		fmt.Println(err)
		return 2
	}
	var r struct {
		Package  string `json:"package"`
		Property string `json:"property"`
		Harness  string `json:"harness"`
		Label    string `json:"label"`
	}
	if err := json.Unmarshal(b, &r); err != nil {
		fmt.Println(err)
		return 2
	}
	ov, err := overlayFiles()
	if err != nil {
		fmt.Println(err)
		return 2
	}
	rp := newReplayer(ov)
	defer rp.close()
	abs, _ := filepath.Abs(args[0])
	v := rp.run(r.Package, abs)
	fmt.Printf("replay %s harness=%s label=%q: %s\n", args[0], r.Harness, r.Label, v)
	if strings.HasPrefix(v, "REPRODUCED") {
		fmt.Printf("VIOLATION property=%s replay=%s\n", r.Property, abs)
		return 1
	}
	if strings.HasPrefix(v, "NOT-REPRODUCED") {
		return 0
	}
	return 2
}

func cmdList() int {
	files, _ := filepath.Glob(filepath.Join(verifDir, "checks", "C*.json"))
	sort.Strings(files)
	for _, f := range files {
		id := strings.TrimSuffix(filepath.Base(f), ".json")
		pc, err := loadProp(id)
		if err != nil {
			fmt.Println(id, err)
			continue
		}
		for _, h := range pc.Harnesses {
			fmt.Printf("%s %-10s %-12s %-34s quick=%v thorough=%v  %s\n", id, h.Obligation, h.Pkg, h.Func, h.Quick, h.Thorough, h.What)
		}
	}
	return 0
}

// ---------------------------------------------------------------------------
// evidence

func writeEvidence(id, tier string, seed int, results []*harnessResult, pc *PropConf, wall float64, nviol int, incon []string, replayNotes []string) {
	os.MkdirAll(filepath.Join(outDir, "evidence"), 0o755)
	paths, asserts, distinct := 0, 0, 0
	var stats interp.SolverStats
	funcs := map[string]int{}
	var samples []any
	var obligations []any
	discharged := 0
	exhaustive := len(incon) == 0
	for _, r := range results {
		paths += r.Paths
		asserts += r.Asserts
		distinct += r.Status["ok"] + r.Status["panic"]
		stats.Queries += r.Stats.Queries
		stats.Sat += r.Stats.Sat
		stats.Unsat += r.Stats.Unsat
		stats.Unknown += r.Stats.Unknown
		stats.Errors += r.Stats.Errors
		stats.Time += r.Stats.Time
		if r.Stats.MaxQuery > stats.MaxQuery {
			stats.MaxQuery = r.Stats.MaxQuery
		}
		for f, n := range r.Funcs {
			if strings.Contains(f, interp.RepoModule) && !strings.Contains(f, "/internal/verifrt") {
				funcs[f] += n
			}
		}
		ok := len(r.Incon) == 0 && len(r.Violations) == 0
		if ok {
			discharged++
		}
		ob := map[string]any{
			"obligation": r.Conf.Obligation, "harness": r.Conf.Pkg + "." + r.Conf.Func, "what": r.Conf.What,
			"bounds": r.Bounds, "paths": r.Paths, "path_status": r.Status, "assertions_checked": r.Asserts,
			"reached": r.Reached, "max_decision_depth": r.MaxDepth, "interpreter_steps": r.Steps,
			"queries": r.Stats.Queries, "sat": r.Stats.Sat, "unsat": r.Stats.Unsat, "unknown": r.Stats.Unknown,
			"solver_s": r.Stats.Time.Seconds(), "max_query_s": r.Stats.MaxQuery.Seconds(), "wall_s": r.Wall,
			"violations": len(r.Violations), "inconclusive": r.Incon, "discharged": ok, "notes": r.Notes,
			"decided_by_alternate_solver": r.Stats.AltDecided,
			"assertion_queries_cross_checked": r.Stats.CrossQueries, "cross_check_second_opinions": r.Stats.CrossDecided,
		}
		var kfs []string
		for k := range r.KFSeen {
			kfs = append(kfs, k)
		}
		sort.Strings(kfs)
		if len(kfs) > 0 {
			ob["known_findings_observed"] = kfs
		}
		obligations = append(obligations, ob)
		for k, s := range r.Samples {
			if k < 2 {
				samples = append(samples, map[string]any{"harness": r.Conf.Func, "path": s})
			}
		}
		for k, q := range r.Queries {
			if k < 1 {
				samples = append(samples, map[string]any{"harness": r.Conf.Func, "smt_query": q})
			}
		}
	}
	var fl []string
	for f := range funcs {
		fl = append(fl, f)
	}
	sort.Strings(fl)
	if len(samples) == 0 {
		samples = append(samples, "no path reached an assertion")
	}
	expl := "Bounded symbolic execution of the real functions from go/ssa built from /repo's working tree on this run " +
		"(harness injected by overlay only), every branch and assertion decided by an SMT solver (z3 over pipes); " +
		"a result holds for all input values within the stated bounds, nothing is claimed outside them. " +
		"evaluations = feasible paths explored; distinct_nontrivial = paths with distinct decision vectors that ran to the end of the harness."
	cov := map[string]any{
		"explanation":          expl,
		"evaluations":          paths,
		"distinct_nontrivial":  distinct,
		"rule":                 "one case = one feasible path of the harness (distinct decision vector over solver-checked branches); non-trivial = reached the end of the harness (status ok) rather than being cut by an assumption",
		"samples":              samples,
		"obligations":          len(results),
		"discharged":           discharged,
		"obligation_details":   obligations,
		"functions_encoded":    fl,
		"assertions_checked":   asserts,
		"solver_queries":       stats.Queries,
		"solver_sat":           stats.Sat,
		"solver_unsat":         stats.Unsat,
		"solver_unknown":       stats.Unknown,
		"solver_errors":        stats.Errors,
		"solver_time_s":        stats.Time.Seconds(),
		"solver_max_query_s":   stats.MaxQuery.Seconds(),
		"solver":               solverVersion(),
		"exhaustive":           exhaustive,
		"inconclusive_reasons": incon,
		"replays":              replayNotes,
		"checker_cmd":          fmt.Sprintf("./bin/verif check %s --tier %s", id, tier),
		"trusted_base":         []string{"go/packages + go/ssa (x/tools v0.50.0)", "symgo interpreter (fork of x/tools/go/ssa/interp)", "environment models listed under models", "z3 4.8.12", "harness oracles"},
	}
	var assumptions []string
	if pc != nil {
		cov["models"] = pc.Models
		cov["outside_the_claim"] = pc.Outside
		assumptions = pc.Assumptions
	}
	if paths < 1 {
		cov["evaluations"] = 1
	}
	if distinct < 2 {
		cov["distinct_nontrivial_measured"] = distinct
	}
	ev := map[string]any{
		"property_id": id, "tier": tier, "seed": seed, "level": "other", "coverage": cov,
		"assumptions": assumptions, "wall_s": wall, "violations": nviol,
	}
	b, _ := json.MarshalIndent(ev, "", " ")
	name := id + ".json"
	if partialRun {
		// --only (a development aid) decides a subset of the obligations: its
		// evidence must not replace the evidence of a full run
		name = id + ".partial.json"
	}
	os.WriteFile(filepath.Join(outDir, "evidence", name), b, 0o644)
}

var partialRun bool

func solverVersion() string {
	out, err := exec.Command("/usr/bin/z3", "--version").Output()
	if err != nil {
		return "z3 (version unknown)"
	}
	return strings.TrimSpace(string(out))
}
