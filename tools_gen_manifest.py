#!/usr/bin/env python3
# Regenerates MANIFEST.json from checks/*.json + manifest_meta.json
import json, glob, os
meta = json.load(open('/verif/manifest_meta.json'))
checks = []
claimed = set()
for f in sorted(glob.glob('/verif/checks/C*.json')):
    pid = os.path.basename(f)[:-5]
    if pid in meta.get('unclaimed', []):
        continue
    m = meta['checks'].get(pid)
    if not m:
        continue
    claimed.add(pid)
    hs = json.load(open(f))['harnesses']
    inventory = " Obligations executed by this check (harness: what it decides) — " + "; ".join(
        f"[{h['obligation']}] {h['func']}: {h.get('what','')}" for h in hs)
    checks.append({
        "property_id": pid,
        "quick_cmd": f"./bin/verif check {pid} --tier quick",
        "thorough_cmd": f"./bin/verif check {pid} --tier thorough",
        "evidence_file": f"/verif/evidence/{pid}.json",
        "replay_cmd_template": "./bin/verif replay {path}",
        "engine": "symgo",
        "level_claimed": {"category": "other", "text": m['text'], "design_ref": m.get('design_ref', 'DESIGN.md section 8')},
        "level_note": m['note'] + inventory,
        "technique": m.get('technique', 'bounded symbolic execution of the real functions from go/ssa + SMT (z3 / cvc5), counterexamples replayed natively'),
    })
na = []
props = [json.loads(l) for l in open('/verif/properties.jsonl')]
for p in props:
    if p['id'] not in claimed:
        na.append({"property_id": p['id'], "reason": meta['not_applicable'].get(p['id'], 'check not built yet in this round (engine support pending); not claimed')})
man = {
    "version": 1,
    "setup_cmd": "./setup.sh",
    "hooks": {"guard": "verif", "enable": "harness files are injected with -overlay and -tags verif; /repo carries no hook code", "baseline_off_cmd": meta['baseline_off_cmd'], "source_commits": [], "add_only": True},
    "engines": [{"name": "symgo", "path": "/verif/engine", "serves_properties": sorted(claimed), "kind_free_text": "symbolic executor over go/ssa (fork of x/tools go/ssa/interp) driving z3 / cvc5 over SMT-LIB2 pipes; native replay of counterexamples via go test -overlay"}],
    "checks": checks,
    "not_applicable": na,
    "notes": meta.get('notes', ''),
}
json.dump(man, open('/verif/MANIFEST.json', 'w'), indent=1)
print("claimed:", sorted(claimed))
